"""A fixed battery of read-only public calls on a FeatureDB, rendered canonically.

Used as a differential oracle with no hand-written expectation: the object that lived through a history
(and answered the same battery before every operation, so whatever it memoises is populated) must answer
exactly like an object freshly opened on the same file.  The argument universe is FIXED per family - it
names ids, featuretypes and seqids that may not exist yet - so negative answers get cached too.
"""
import json

import gffutils

UNIVERSE = {
    "gff3": dict(ids=["g1", "m1", "e1", "p1", "exon_1", "exon_2", "g2", "m9", "e1_1", "no-such-id"],
                 types=["gene", "mRNA", "exon", "part", "ncRNA", "no-such-type"],
                 seqids=["c1", "c2", "c9"], tx=["m1", "m9"], gene="gene", tr="mRNA"),
    "gtf": dict(ids=["G1", "T1", "T2", "exon_1", "exon_3", "exon_4", "CDS_1", "CDS_2", "T1_1", "no-such-id"],
                types=["gene", "transcript", "exon", "CDS", "no-such-type"],
                seqids=["c1", "c9"], tx=["T1", "T2"], gene="gene", tr="transcript"),
}


def _call(fn):
    try:
        return fn()
    except Exception as e:          # the kind of failure is part of the answer
        return ["raised", type(e).__name__]


def _ids(it):
    return [f.id for f in it]


def battery(db, family, light=False):
    """light=True: the subset asked between operations (every call kind once per argument, fewer arguments)."""
    u = UNIVERSE[family]
    out = {}
    types = u["types"]
    ids = u["ids"] if not light else u["ids"][::3] + u["ids"][-1:]
    few = ids if light else u["ids"][::2] + u["ids"][-1:]
    out["count"] = [_call(lambda t=t: db.count_features_of_type(t)) for t in [None] + types]
    out["of_type"] = [_call(lambda t=t: _ids(db.features_of_type(t))) for t in types]
    out["of_types"] = _call(lambda: _ids(db.features_of_type(tuple(types[:3]), order_by="start")))
    out["all"] = _call(lambda: _ids(db.all_features()))
    out["all_by_end"] = _call(lambda: _ids(db.all_features(order_by=("end", "start"), reverse=False, strand="+")))
    out["featuretypes"] = _call(lambda: sorted(db.featuretypes()))
    out["seqids"] = _call(lambda: sorted(db.seqids()))
    out["lookup"] = [_call(lambda i=i: str(db[i])) for i in ids]
    out["children"] = [_call(lambda i=i: sorted(_ids(db.children(i)))) for i in ids]
    out["children_l1_exon"] = [_call(lambda i=i: sorted(_ids(db.children(i, level=1, featuretype="exon")))) for i in few]
    out["parents"] = [_call(lambda i=i: sorted(_ids(db.parents(i)))) for i in ids]
    out["parents_l2"] = [_call(lambda i=i: sorted(_ids(db.parents(i, level=2, featuretype=u["gene"])))) for i in few]
    out["region"] = [_call(lambda s=s: sorted(_ids(db.region(seqid=s)))) for s in u["seqids"]]
    out["region_str"] = _call(lambda: sorted(_ids(db.region("c1:1-60"))))
    out["region_within"] = _call(lambda: sorted(_ids(db.region(seqid="c1", start=1, end=100, completely_within=True, featuretype="exon"))))
    out["region_limit"] = _call(lambda: sorted(_ids(db.all_features(limit=("c2", 1, 1000)))))
    out["dialect"] = _call(lambda: json.dumps(db.dialect, sort_keys=True))
    if True:
        out["by_parent"] = _call(lambda: [[f.id for f in grp] for grp in db.iter_by_parent_childs(featuretype=u["gene"], order_by="start")])
        # merge=True hands out a fresh '<featuretype>_<n>' id from the object's counters (legitimately: such ids must not
        # collide with stored keys), which shifts the numbering of a LATER update; between operations only merge=False is asked
        out["children_bp"] = [_call(lambda i=i: db.children_bp(i, child_featuretype="exon", merge=not light)) for i in (u["tx"][:1] if light else u["tx"])]
        out["bed12"] = [_call(lambda i=i: db.bed12(i)) for i in (u["tx"][:1] if light else u["tx"])]
        out["introns"] = _call(lambda: sorted(str(f) for f in db.create_introns(grandparent_featuretype=u["gene"])))
        out["introns_parent"] = _call(lambda: sorted(str(f) for f in db.create_introns(parent_featuretype=u["tr"], grandparent_featuretype=None)))
        out["n_relations"] = _call(lambda: db.execute("SELECT count(*) FROM relations").fetchone()[0])
    return out


def diff(a, b):
    """Names of the battery entries on which two answers differ (with both values)."""
    return {k: dict(live=a.get(k), fresh=b.get(k)) for k in sorted(set(a) | set(b)) if a.get(k) != b.get(k)}


def fresh_answers(path, family):
    db = gffutils.FeatureDB(path)
    try:
        return battery(db, family)
    finally:
        try:
            db.conn.close()
        except Exception:
            pass
