"""Reference model of the five merge strategies, worded as the property states them."""
import collections


class RefAbort(Exception):
    pass


COLNAMES = ("seqid", "source", "featuretype", "start", "end", "score", "strand", "frame")


class Stored(object):
    def __init__(self, a):
        self.cols = dict(a["cols"])
        self.seen = {k: {str(v)} for k, v in a["cols"].items()}     # values seen per column
        self.attrs = {k: set(v) for k, v in a["attrs"].items()}
        self.raw = {k: list(v) for k, v in a["attrs"].items()}       # as written, while nothing was merged into it
        self.merged = False
        self.parents = set(a["parents"])


class Ref(object):
    def __init__(self, strategy, fmf=()):
        self.strategy = strategy
        self.fmf = tuple(fmf)
        self.store = collections.OrderedDict()
        self.dups = {}
        self.counter = {}
        self.explicit_collision = False     # a generated <key>_n equals an id already stored
        self.collided = False               # some duplicate key occurred at all
        self.third_into_suffix = False      # an arrival was merged into / compared with an earlier <key>_n entry

    def fresh(self, key):
        while True:
            self.counter[key] = self.counter.get(key, 0) + 1
            nid = "%s_%d" % (key, self.counter[key])
            if nid not in self.store:
                return nid
            self.explicit_collision = True      # the generated key is already taken: keep counting

    def arrive(self, a):
        key = a["key"]
        if key not in self.store:
            self.store[key] = Stored(a)
            return key
        self.collided = True
        s = self.strategy
        if s == "error":
            raise RefAbort(key)
        if s == "warning":
            return None
        if s == "replace":
            self.store[key] = Stored(a)
            return key
        if s == "create_unique":
            nid = self.fresh(key)
            self.store[nid] = Stored(a)
            return nid
        if s == "merge":
            cands = [key] + self.dups.get(key, [])
            for cid in cands:
                st = self.store[cid]
                if all(str(st.cols[c]) == str(a["cols"][c]) for c in COLNAMES if c not in self.fmf):
                    if cid != key:
                        self.third_into_suffix = True
                    st.merged = True
                    for k, v in a["attrs"].items():
                        st.attrs.setdefault(k, set()).update(v)
                    for c in self.fmf:
                        st.seen[c].add(str(a["cols"][c]))
                    st.parents |= set(a["parents"])
                    return cid
            nid = self.fresh(key)
            self.store[nid] = Stored(a)
            self.dups.setdefault(key, []).append(nid)
            return nid
        raise ValueError(s)

    def expected(self):
        """id -> (cols with exempt columns as sets, attrs as sets, parents)"""
        out = {}
        for fid, st in self.store.items():
            cols = {}
            for c in COLNAMES:
                cols[c] = frozenset(st.seen[c]) if c in self.fmf else frozenset([str(st.cols[c])])
            out[fid] = (cols, {k: frozenset(v) for k, v in st.attrs.items()}, frozenset(st.parents))
        return out

    def merged_ids(self):
        return {fid for fid, st in self.store.items() if st.merged}

    def raw_attrs(self, fid):
        return self.store[fid].raw
