"""Independent geometry of the 5-level UCSC binning scheme (bin -> extent)."""

SHIFTS = (17, 20, 23, 26, 29)          # finest .. coarsest
COUNTS = (4096, 512, 64, 8, 1)
OFFS = (4681, 585, 73, 9, 1)
LIMIT = 2 ** 29


def level_extent(b):
    """(level, lo, hi) -- 0-based closed extent of bin id b, or None if no such bin."""
    if not isinstance(b, int) or isinstance(b, bool):
        return None
    for k in range(5):
        i = b - OFFS[k]
        if 0 <= i < COUNTS[k]:
            return k, i << SHIFTS[k], ((i + 1) << SHIFTS[k]) - 1
    return None


def smallest_level_containing(lo, hi):
    """Finest level at which 0-based closed [lo, hi] lies inside one bin."""
    for k in range(5):
        if lo >> SHIFTS[k] == hi >> SHIFTS[k]:
            return k
    return 4


def overlapping_bins(lo, hi):
    """Every bin id whose extent overlaps 0-based closed [lo, hi] (clipped to the scheme)."""
    out = set()
    lo = max(lo, 0)
    hi = min(hi, LIMIT - 1)
    if lo > hi:
        return out
    for k in range(5):
        for i in range(lo >> SHIFTS[k], (hi >> SHIFTS[k]) + 1):
            out.add(OFFS[k] + i)
    return out


def zero_based(start, end, fmt):
    """0-based closed positions covered by the interval in the given convention."""
    if fmt == "gff":
        return start - 1, end - 1
    return start, end - 1


def in_range(start, end, fmt):
    """The statement's range: 1 <= start (1-based), 0 <= end < 2**29."""
    first = 1 if fmt == "gff" else 0
    return start >= first and 0 <= end < LIMIT and start < LIMIT
