"""Canonical content of a gffutils database (what every public query is a function of)."""
import json
import os
import sqlite3

COLS = ["id", "seqid", "source", "featuretype", "start", "end", "score", "strand", "frame",
        "attributes", "extra", "bin"]


def _conn(x):
    if isinstance(x, sqlite3.Connection):
        return x, False
    if hasattr(x, "conn"):
        return x.conn, False
    return sqlite3.connect("file:%s?mode=ro" % x, uri=True), True


def canon(x, attr_sets=False, with_rowid=False):
    """Canonical form: rows of every table; features in rowid order.

    attr_sets=True compares attribute values per key as sorted sets (merged
    value order is hash-seed dependent in the implementation).
    """
    conn, close = _conn(x)
    try:
        c = conn.cursor()
        feats = []
        for row in c.execute("SELECT rowid, %s FROM features ORDER BY rowid" % ", ".join(COLS)):
            row = list(row)
            rowid = row.pop(0)
            attrs = json.loads(row[9]) if row[9] else {}
            if attr_sets:
                attrs = {k: sorted(set(v)) for k, v in attrs.items()}
                attrs = sorted(attrs.items())
            else:
                attrs = list(attrs.items())
            row[9] = attrs
            row[10] = json.loads(row[10]) if row[10] else []
            if with_rowid:
                row.insert(0, rowid)
            feats.append(row)
        rels = sorted(tuple(r) for r in c.execute("SELECT parent, child, level FROM relations"))
        auto = sorted(tuple(r) for r in c.execute("SELECT base, n FROM autoincrements"))
        dups = sorted(tuple(r) for r in c.execute("SELECT idspecid, newid FROM duplicates"))
        dirs = [r[0] for r in c.execute("SELECT directive FROM directives ORDER BY rowid")]
        meta = [(json.loads(r[0]) if r[0] else None, r[1]) for r in c.execute("SELECT dialect, version FROM meta")]
        return dict(features=feats, relations=rels, autoincrements=auto, duplicates=dups,
                    directives=dirs, meta=meta)
    finally:
        if close:
            conn.close()


def content_only(c):
    """Features and relations (what 'equivalent database' means for re-imports)."""
    return dict(features=c["features"], relations=c["relations"])


def feature_obs(f):
    """Observable content of a Feature object, independent of global switches."""
    d = getattr(f.attributes, "_d", f.attributes)
    return dict(id=f.id, cols=[f.seqid, f.source, f.featuretype, f.start, f.end, f.score, f.strand, f.frame],
                attrs=[(k, list(v)) for k, v in d.items()], extra=list(f.extra))


def write_text(dirpath, name, text):
    p = os.path.join(dirpath, name)
    with open(p, "w", encoding="utf-8", newline="") as fh:
        fh.write(text)
    return p


def close_db(db):
    try:
        db.conn.close()
    except Exception:
        pass
