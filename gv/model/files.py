"""Files 'written in one consistent dialect' (DESIGN section 2, conditions (a) and (b))."""
from gv.model import grammar as G

SHAPES = ("same", "late", "flags", "escapes", "dots_extras", "parent")


def file_lines(d, shape, n):
    """-> list of (cols8, items, extras) for n lines; ids are unique."""
    out = []
    for i in range(n):
        # ids and coordinates are deliberately NOT in file order (file order must come from the database, not from sorting)
        fid = "f%d" % i if i == 0 else "%sf%d" % ("zyxwvutsrqpo"[i % 12], i)
        st = 10 + 5 * ((i * 5) % 13)
        cols = [("chr1", "chr10", "Chr2")[i % 3 if shape == "same" else 0], "src", ("gene", "mRNA", "exon")[i % 3], str(st), str(st + 10), ".", "+-"[i % 2], "."]
        extras = []
        tag = ["t%d" % i, "u%d" % i]            # multi-valued key on every line: exhibits 'repeated keys'
        if shape == "same":
            # values with a literal '+', and (unreserved, hence raw) Unicode line/paragraph separators
            items = [("ID", [fid]), ("Name", ["nm%d" % i if i else "nm+0\u2028x\x85y"]), ("tag", tag)]
        elif shape == "late":
            # keys: previously seen keys in first-seen order, then new keys
            # late keys are first seen in NON-alphabetical order (note, late2, a_last)
            table = [[], ["note"], ["late2"], ["note", "a_last"], ["note", "late2"], ["late2", "a_last"]]
            items = [("ID", [fid]), ("tag", tag)]
            for k in table[i % 6]:
                items.append((k, ["1", "2"] if k == "a_last" else ["%s%d" % (k[0], i)]))
        elif shape == "flags":
            items = [("ID", [fid]), ("tag", tag), ("flagged", [])]
            # comma lists with an empty element (doubled / trailing comma), where the dialect writes lists with commas
            items.append(("Dbxref", (["a", "", "b"] if i % 2 else ["m%d" % i, ""]) if d.multi == "comma" else ["a", "b"]))
            if i % 2:
                items.append(("Name", ["q"]))
        elif shape == "escapes":
            if G.escapes(d):
                vals = ["a;b", "c=d,e", "100%", "x&y\tz", "bell\x07only", "d\x7fe", "two words"]       # the last two: a control character and nothing else to escape
            else:
                vals = ["a%3Bb", "c%3Dd", "100%25", "x y"]
            items = [("ID", [fid]), ("tag", [vals[i % 4], vals[(i + 1) % 4]]), ("Name", [vals[(i + 2) % len(vals)]])]
        elif shape == "dots_extras":
            items = [("ID", [fid]), ("tag", tag)]
            if i % 3 == 1:
                cols[3] = cols[4] = "."
            if i % 6 == 4:
                cols[3] = "."            # only one of the two coordinates missing
            if i % 6 == 5:
                cols[4] = "."
            if i % 6 == 3:
                cols[3], cols[4] = "9007199254740993", "9223372036854775807"      # integers a double cannot hold
            if i % 3 == 2:
                cols[5], cols[7] = "0.9", "2"
            if i % 6 == 2:
                cols[3], cols[4] = "536870911", "536870912"        # ends exactly at 2**29, the limit of the binning scheme
            extras = [[], ["e1"], ["e1", "e 2"], ["e1", ""], [""], ["", "x"], ["7"], ["true"], ['"q"'], ["[1,2]"], ["null"]][i % 11]   # incl. empty / JSON-looking
        elif shape == "parent":
            items = [("ID", [fid]), ("tag", tag)]
            if i >= 1:
                items.append(("Parent", ["f0"] if i < 3 else ["f0", "yf1"]))
        else:
            raise ValueError(shape)
        assert G.well_formed(d, items) and G.exhibits_all(d, items), (d, shape, items)
        out.append((cols, items, extras))
    # condition (b)
    seen = []
    for _, items, _ in out:
        keys = G.dedup([k for k, _ in items])
        old = [k for k in keys if k in seen]
        new = [k for k in keys if k not in seen]
        assert keys == old + new and old == [k for k in seen if k in old], (shape, keys, seen)
        seen.extend(new)
    return out


def render(d, lines):
    return [G.render_line(cols, G.render_attrs(d, items), extras) for cols, items, extras in lines]


def first_seen_order(lines, w):
    order = []
    for _, items, _ in lines[:w]:
        for k, _ in items:
            if k not in order:
                order.append(k)
    return order
