"""Single source of truth for what attribute text *means* (DESIGN section 2).

A grammar dialect is a point (sep, trailing, style, multi).  ``render_attrs``
turns [(key, [raw values])] into the attribute column; the same arguments give
the expected attribute mapping and the expected (observable) dialect dictionary.
Written from the format descriptions, not from gffutils' parser.
"""
import collections
import itertools

SEPS = (";", "; ", " ; ")
STYLES = ("eq", "quoted", "bare", "eqq")       # key=value | key "value" | key value | key="value"
MULTIS = ("comma", "repeated")

GD = collections.namedtuple("GD", "sep trailing style multi")

ALL = [GD(s, t, st, m) for st in STYLES for s in SEPS for t in (False, True) for m in MULTIS]

RESERVED = "\t\n\r%;=&,"


def needs_escape(c):
    return c in RESERVED or ord(c) < 32 or ord(c) == 127


def encode(v):
    """GFF3 percent-encoding: reserved characters only, upper-case hex."""
    return "".join("%%%02X" % ord(c) if needs_escape(c) else c for c in v)


def fmt_of(d):
    return "gtf" if d.style == "quoted" else "gff3"


def escapes(d):
    """Does text in this dialect carry percent-escapes (gff3 semantics)?"""
    return fmt_of(d) == "gff3"


def value_text(d, v):
    return encode(v) if escapes(d) else v


def render_parts(d, items):
    parts = []
    for key, vals in items:
        texts = [value_text(d, v) for v in vals]
        if not texts:                                   # valueless flag
            parts.append(key + ' ""' if d.style == "quoted" else key)
            continue
        groups = [[t] for t in texts] if (d.multi == "repeated" and len(texts) > 1) else [texts]
        for g in groups:
            joined = ",".join(g)
            if d.style == "eq":
                parts.append(key + "=" + joined)
            elif d.style == "eqq":
                parts.append(key + '="' + joined + '"')
            elif d.style == "quoted":
                parts.append(key + ' "' + joined + '"')
            else:
                parts.append(key + " " + joined)
    return parts


def render_attrs(d, items):
    parts = render_parts(d, items)
    if not parts:
        return ""
    return d.sep.join(parts) + (";" if d.trailing else "")


def expected_attrs(items):
    out = collections.OrderedDict()
    for key, vals in items:
        out.setdefault(key, []).extend(vals)
    return out


def observable(d, items):
    """Which dialect dimensions this attribute list actually exhibits."""
    nparts = len(render_parts(d, items))
    return dict(
        sep=nparts >= 2,
        repeated=d.multi == "repeated" and any(len(v) > 1 for _, v in items),
        nonempty=nparts >= 1,
    )


DEFAULT_ORDER = ["ID", "Name", "gene_id", "transcript_id"]


def expected_dialect(d, items, full=False):
    """Expected inferred dialect for one line (observable projection unless full)."""
    obs = observable(d, items)
    if not obs["nonempty"]:
        return {
            "leading semicolon": False, "trailing semicolon": False,
            "quoted GFF2 values": False, "field separator": ";", "keyval separator": "=",
            "multival separator": ",", "fmt": "gff3", "repeated keys": False,
            "order": list(DEFAULT_ORDER),
        }
    order = []
    for k, _ in items:
        if k not in order:
            order.append(k)
    return {
        "leading semicolon": False,
        "trailing semicolon": d.trailing,
        "quoted GFF2 values": d.style in ("quoted", "eqq"),
        "field separator": d.sep if (obs["sep"] or full) else ";",
        "keyval separator": "=" if d.style in ("eq", "eqq") else " ",
        "multival separator": ",",
        "fmt": fmt_of(d),
        "repeated keys": (d.multi == "repeated") if full else obs["repeated"],
        "order": order,
    }


def exhibits_all(d, items):
    """Condition (a): the line shows every non-default dimension of d."""
    obs = observable(d, items)
    if not obs["nonempty"]:
        return False
    if d.sep != ";" and not obs["sep"]:
        return False
    if d.multi == "repeated" and not obs["repeated"]:
        return False
    return True


def well_formed(d, items):
    """Lines the grammar admits for dialect d (see DESIGN section 2)."""
    if not items:
        return True
    k0, v0 = items[0]
    if d.style in ("eq", "eqq") and not v0:
        return False        # GFF3 is recognised by key= at the very start
    return True


def dedup(seq):
    out = []
    for x in seq:
        if x not in out:
            out.append(x)
    return out


def render_line(cols, attrs_text, extras=()):
    return "\t".join(list(cols) + [attrs_text] + list(extras))


def as_plain(attrs):
    """Attributes-like -> OrderedDict of lists, independent of always_return_list."""
    d = getattr(attrs, "_d", attrs)
    return collections.OrderedDict((k, list(v)) for k, v in d.items())
