"""Reference model of a GFF3 gffutils database under create/update/delete/add_relation (C10, C19).

Written from the property statements: update inserts or merges features (by the merge-strategy
rules of C05), adds one level-1 relation per Parent value and the level-2 relations that are
compositions of two level-1 edges; delete removes the feature row and every relation naming it and
nothing else; auto-generated keys continue their numbering and never recycle.
"""
import collections
import copy


class RefAbort(Exception):
    pass


COLS = ("seqid", "source", "featuretype", "start", "end", "score", "strand", "frame")


def parse_line(text):
    f = text.rstrip("\n").split("\t")
    attrs = collections.OrderedDict()
    if len(f) > 8 and f[8] and '"' in f[8]:            # GTF: key "v1,v2";
        for part in f[8].strip().rstrip(";").split(";"):
            k, v = part.strip().split(" ", 1)
            v = v.strip().strip('"')
            attrs.setdefault(k, []).extend(v.split(",") if v else [])
    elif len(f) > 8 and f[8]:
        for part in f[8].split(";"):
            part = part.strip()                      # "; " and " ; " separators
            if "=" in part:
                k, v = part.split("=", 1)
                attrs.setdefault(k, []).extend(v.split(","))
            elif part:
                attrs.setdefault(part, [])
    cols = dict(zip(COLS, f[:8]))
    cols["start"] = None if cols["start"] == "." else int(cols["start"])
    cols["end"] = None if cols["end"] == "." else int(cols["end"])
    return dict(cols=cols, attrs=attrs, extra=f[9:])


class RefDB(object):
    def __init__(self, fmt="gff3"):
        self.fmt = fmt                              # 'gff3' | 'gtf' (GTF: inference disabled)
        self.soft = set()                           # relations the statements leave open (accepted either way)
        self.feats = collections.OrderedDict()      # id -> dict(cols, attrs{k: set}, extra)
        self.rels = set()                           # (parent, child, level)
        self.counters = {}                          # autoincrement base -> n
        self.dups = {}                              # key -> [ids filed as its duplicates]
        self.handed_out = []                        # every auto-generated key, in order

    def clone(self):
        return copy.deepcopy(self)

    # -- keys ------------------------------------------------------------
    def _auto(self, base):
        self.counters[base] = self.counters.get(base, 0) + 1
        key = "%s_%d" % (base, self.counters[base])
        self.handed_out.append(key)
        return key

    def _fresh(self, key):
        while True:
            nid = self._auto(key)
            if nid not in self.feats:
                return nid

    # -- operations --------------------------------------------------------
    def _store(self, fid, rec):
        self.feats[fid] = dict(cols=dict(rec["cols"]), attrs={k: set(v) for k, v in rec["attrs"].items()},
                               extra=list(rec["extra"]))

    def update(self, lines, strategy="error"):
        if not lines:
            return          # "update with no features changes nothing"
        for text in lines:
            rec = parse_line(text) if isinstance(text, str) else text
            ft = rec["cols"]["featuretype"]
            if self.fmt == "gff3":
                idkey = "ID"
            else:
                idkey = {"gene": "gene_id", "transcript": "transcript_id"}.get(ft)
            if idkey and rec["attrs"].get(idkey):
                fid = rec["attrs"][idkey][0]
            else:
                fid = self._auto(ft)
            used = fid
            if fid not in self.feats:
                self._store(fid, rec)
            elif strategy == "error":
                raise RefAbort(fid)
            elif strategy == "warning":
                continue
            elif strategy == "replace":
                self._store(fid, rec)           # OrderedDict keeps the original position
                self.rels = {r for r in self.rels if r[1] != fid}
                self.soft = {r for r in self.soft if r[1] != fid}
            elif strategy == "create_unique":
                used = self._fresh(fid)
                self._store(used, rec)
            elif strategy == "merge":
                used = None
                for cid in [fid] + self.dups.get(fid, []):
                    if cid in self.feats and self.feats[cid]["cols"] == rec["cols"]:
                        for k, v in rec["attrs"].items():
                            self.feats[cid]["attrs"].setdefault(k, set()).update(v)
                        used = cid
                        break
                if used is None:
                    used = self._fresh(fid)
                    self._store(used, rec)
                    self.dups.setdefault(fid, []).append(used)
            else:
                raise ValueError(strategy)
            if self.fmt == "gff3":
                for p in rec["attrs"].get("Parent", []):
                    self.rels.add((p, used, 1))
            else:
                t = (rec["attrs"].get("transcript_id") or [None])[0]
                g = (rec["attrs"].get("gene_id") or [None])[0]
                if t is not None and t != used:
                    self.rels.add((t, used, 1))
                if g is not None and g != used:
                    if t == used:
                        self.soft.add((g, used, 2))       # explicit transcript line: level-2 child of its gene or not
                    else:
                        self.rels.add((g, used, 2))
                    if t is not None and g != t:
                        self.rels.add((g, t, 1))
        if self.fmt == "gff3":
            self.compose_level2()

    def compose_level2(self):
        l1 = {}
        for p, c, lv in self.rels:
            if lv == 1:
                l1.setdefault(p, set()).add(c)
        for a in list(self.feats):
            for b in l1.get(a, ()):
                for c in l1.get(b, ()):
                    self.rels.add((a, c, 2))

    def delete(self, ids):
        for fid in ids:
            self.feats.pop(fid, None)
            self.rels = {r for r in self.rels if r[0] != fid and r[1] != fid}
            self.soft = {r for r in self.soft if r[0] != fid and r[1] != fid}
            # a deleted '<key>_n' entry is no longer a merge candidate (nothing stored under it)

    def add_relation(self, parent, child, level, set_parent_attr=False):
        self.rels.add((parent, child, level))
        if set_parent_attr:
            self.feats[child]["attrs"]["Parent"] = {parent}

    # -- observation -------------------------------------------------------
    def state(self):
        feats = []
        for fid, f in self.feats.items():
            c = f["cols"]
            feats.append((fid, tuple(c[k] for k in COLS), tuple(sorted((k, tuple(sorted(v))) for k, v in f["attrs"].items())),
                          tuple(f["extra"])))
        return dict(features=feats, relations=sorted(self.rels - self.soft), soft=set(self.soft))


def impl_state(canon):
    """Project gv.model.dbutil.canon(...) (attr_sets=True) onto the model's observation."""
    feats = []
    for row in canon["features"]:
        fid = row[0]
        cols = tuple(row[1:9])
        attrs = tuple(sorted((k, tuple(sorted(set(v)))) for k, v in row[9]))
        feats.append((fid, cols, attrs, tuple(row[10])))
    return dict(features=feats, relations=sorted(tuple(r) for r in canon["relations"]))
