"""E2 -- explicit-state breadth-first search over real operation histories.

A state is the event history that reaches it.  ``run_history(h)`` (supplied by the property) builds a
fresh real database in a fresh file, replays ``h`` through the real API on one live object with the
reference model stepped alongside, and returns a dict:

    status   'ok' | 'disabled' (last event not enabled in the state before it) | 'ended' (the
             operation legitimately failed: the history ends there) | 'violation'
    key      canonical hash of the reached state (for 'ok')
    violations  list of dicts(kind, sig, detail)
    info     free-form (e.g. what the last event did)

The search expands level by level across a fork pool, deduplicates children by ``key`` and only
extends one representative history per distinct state.  Every (state, event) pair is a transition.
"""
import multiprocessing
import os
import tempfile
import time

from gv.engine import pool as P
from gv.engine.choice import EngineError

EngineErrorTypes = (EngineError,)

_ST = {}


def _init():
    P.quiet_stderr()
    d = os.path.join(_ST["tmpdir"], "h%d" % os.getpid())
    os.makedirs(d, exist_ok=True)
    _ST["wdir"] = d
    tempfile.tempdir = d
    import warnings

    warnings.simplefilter("ignore")


def _work(item):
    import shutil

    tag, h = item
    # a NEW directory for every history: a connection left open by an earlier history must never share
    # a path (and hence a journal file name) with the current one
    _ST["n"] = _ST.get("n", 0) + 1
    prev = _ST.get("prev")
    if prev:
        shutil.rmtree(prev, ignore_errors=True)
    d = os.path.join(_ST["wdir"], "h%d" % _ST["n"])
    os.makedirs(d)
    _ST["prev"] = d
    try:
        return tag, h, _ST["fn"](h, d, tag)
    except Exception as e:       # harness defect or escaped exception: report, never hide
        import traceback

        return tag, h, dict(status="violation", key=None, info=None,
                            violations=[dict(kind="harness-exception", sig=dict(exc=type(e).__name__),
                                             detail=dict(message=str(e)[:300], traceback=traceback.format_exc()[-1500:]))])


class Result(object):
    def __init__(self):
        self.states = 0
        self.transitions = 0
        self.histories = 0
        self.maxdepth = 0
        self.per_level = []
        self.disabled = 0
        self.ended = 0
        self.violations = {}
        self.samples = []
        self.outcomes = set()
        self.extra_runs = 0


def bfs(run_history, events, depth, seed=0, jobs=None, extra=None, progress=False):
    """events: list of event names.  extra(representatives_by_depth) -> list of (tag, history) for
    additional runs (fault enumeration) executed on the same pool after the search."""
    import json
    import random

    jobs = jobs or int(os.environ.get("GV_JOBS", "0")) or min(16, os.cpu_count() or 1)
    _ST["tmpdir"] = P.scratch_root()
    _ST["fn"] = run_history
    res = Result()
    ctx = multiprocessing.get_context("fork")
    pl = ctx.Pool(jobs, initializer=_init)
    try:
        tag, h, r0 = pl.apply(_work, (("bfs", ()),))
        if r0["status"] != "ok":
            _record(res, r0, h)
            return res
        seen = {r0["key"]: ()}
        res.states = 1
        res.histories = 1
        frontier = [()]
        reps = {0: [()]}
        rnd = random.Random(seed)
        for d in range(1, depth + 1):
            items = [("bfs", hh + (ev,)) for hh in frontier for ev in events]
            rnd.shuffle(items)
            nxt = []
            t0 = time.time()
            for tag, h, r in pl.imap_unordered(_work, items, chunksize=4):
                res.histories += 1
                if r["status"] == "disabled":
                    res.disabled += 1
                    continue
                res.transitions += 1
                if r.get("info") is not None:
                    res.outcomes.add(json.dumps(r["info"], sort_keys=True, default=str))
                if r["status"] == "ended":
                    res.ended += 1
                    continue
                if r["status"] == "violation":
                    _record(res, r, h)
                    continue
                if r["key"] not in seen:
                    seen[r["key"]] = h
                    nxt.append(h)
                    if len(res.samples) < 6 and (len(nxt) % 37 == 1):
                        res.samples.append(dict(history=list(h), reached=r.get("info")))
            nxt.sort()
            res.per_level.append(dict(depth=d, histories=len(items), new_states=len(nxt), wall_s=round(time.time() - t0, 1)))
            if progress:
                print("  .. depth %d: %d histories, %d new states (%.0fs)" % (d, len(items), len(nxt), time.time() - t0), flush=True)
            res.states = len(seen)
            if nxt:
                res.maxdepth = d
            reps[d] = nxt
            frontier = nxt
            if not frontier:
                break
        if extra is not None:
            items = extra(reps)
            for tag, h, r in pl.imap_unordered(_work, items, chunksize=4):
                res.extra_runs += 1
                if r["status"] == "disabled":
                    continue
                res.transitions += 1
                if r.get("info") is not None:
                    res.outcomes.add(json.dumps(r["info"], sort_keys=True, default=str))
                if r["status"] == "violation":
                    _record(res, r, h, tag)
    finally:
        pl.close()
        pl.join()
    return res


def _record(res, r, h, tag="bfs"):
    import json

    for v in r["violations"]:
        sig = dict(v.get("sig") or {})
        sig["kind"] = v["kind"]
        key = json.dumps(sig, sort_keys=True, default=str)
        cur = res.violations.setdefault(key, [0, []])
        cur[0] += 1
        if len(cur[1]) < 3:
            cur[1].append(dict(kind=v["kind"], sig=sig, detail=v.get("detail"), history=list(h), tag=tag,
                               shard=None, choices=None, labels=None))


def replay_isolated(run_history, h, tag, kind):
    """Replay one history in a freshly forked process; True iff a violation of that kind shows again."""
    import shutil

    ctx = multiprocessing.get_context("fork")
    q = ctx.Queue()

    def child():
        d = tempfile.mkdtemp(prefix="gv-confirm-", dir="/dev/shm" if os.path.isdir("/dev/shm") else None)
        try:
            P.quiet_stderr()
            tempfile.tempdir = d
            r = run_history(h, d, tag)
            q.put(any(x["kind"] == kind for x in r["violations"]))
        except EngineErrorTypes:
            q.put(False)
        except Exception:
            # an exception escaping the history is what the search records as 'harness-exception'
            q.put(kind == "harness-exception")
        except BaseException:
            q.put(False)
        finally:
            shutil.rmtree(d, ignore_errors=True)

    p = ctx.Process(target=child)
    p.start()
    try:
        ok = q.get(timeout=1800)
    except Exception:
        ok = False
    p.join(30)
    if p.is_alive():
        p.kill()
    return ok
