"""E3 -- controlled scheduler for real processes.

Every job runs in a child forked from the (warmed-up) controller.  In the child the operations named
below first report a *scheduling point* over a pipe and block until the controller says go, so exactly
one child runs at a time and an execution is fully determined by the sequence of child indices.  The
controller is driven by an E1 Chooser: the choice at every step is which enabled child moves next, in
canonical order "the child that just ran first, then ascending index" -- so a non-default choice is a
pre-emption (or a non-canonical pick after an exit) and E1's deviation bound is a pre-emption bound.

Scheduling points
  start of the job (so every start offset relative to the other processes is explored)
  file system (paths inside the shared temp dir): os.open, builtins.open, os.unlink/remove/rename,
      os.stat/lstat
  sqlite (readers): sqlite3.connect, Cursor.execute/executescript, Connection.commit, every row fetch

tempfile._name_sequence is replaced in every child by the same deterministic sequence, so all
processes propose the same temp names in the same order: the colliding keys are forced.
"""
import builtins
import json
import os
import select
import signal
import sqlite3
import sys
import tempfile
import time
import traceback

from gv.engine.choice import EngineError

TIMEOUT = 60.0


class DetNames(object):
    """Deterministic replacement for tempfile._RandomNameSequence."""

    def __init__(self):
        self.n = 0

    def __iter__(self):
        return self

    def __next__(self):
        self.n += 1
        return "n%03d" % self.n


class _TornWriter(object):
    """Proxy for a file opened for writing inside the shared directory: its FIRST write is split in two
    halves with a scheduling point in between, so that a concurrent reader of the same path can observe
    a partially written file (write(2) is not atomic for readers).  With unique, exclusively created
    names nobody else reads the file and the split is unobservable."""

    def __init__(self, real, point, name):
        self.__dict__.update(_real=real, _point=point, _name=name, _first=True)

    def write(self, data):
        if self._first and len(data) >= 2:
            self.__dict__["_first"] = False
            half = len(data) // 2
            n = self._real.write(data[:half])
            self._real.flush()
            self._point("write:second-half", self._name)
            return n + self._real.write(data[half:])
        self.__dict__["_first"] = False
        return self._real.write(data)

    def __getattr__(self, k):
        return getattr(self._real, k)

    def __setattr__(self, k, v):
        setattr(self._real, k, v)

    def __enter__(self):
        self._real.__enter__()
        return self

    def __exit__(self, *a):
        return self._real.__exit__(*a)

    def __iter__(self):
        return iter(self._real)


def _install_fs_hooks(shared, point, torn_writes=False):
    shared = os.path.abspath(shared) + os.sep

    def inside(p):
        try:
            if isinstance(p, int):
                return False
            return os.path.abspath(os.fsdecode(p)).startswith(shared)
        except Exception:
            return False

    def base(p):
        return os.path.basename(os.fsdecode(p))

    real_os_open = os.open

    def os_open(path, flags, mode=0o777, *, dir_fd=None):
        if inside(path):
            point("os.open" + ("+excl" if flags & os.O_EXCL else ""), base(path))
        return real_os_open(path, flags, mode, dir_fd=dir_fd)

    os.open = os_open
    real_open = builtins.open

    def hooked_open(file, mode="r", *a, **k):
        if inside(file):
            point("open:" + mode, base(file))
            if torn_writes and any(c in mode for c in "wax+"):
                return _TornWriter(real_open(file, mode, *a, **k), point, base(file))
        return real_open(file, mode, *a, **k)

    builtins.open = hooked_open
    for name in ("unlink", "remove", "stat", "lstat"):
        real = getattr(os, name)

        def mk(real, name):
            def f(path, *a, **k):
                if inside(path):
                    point("os." + name, base(path))
                return real(path, *a, **k)
            return f

        setattr(os, name, mk(real, name))
    real_rename = os.rename

    def rename(src, dst, *a, **k):
        if inside(src) or inside(dst):
            point("os.rename", base(src))
        return real_rename(src, dst, *a, **k)

    os.rename = rename


def _install_sqlite_hooks(point):
    class HCursor(sqlite3.Cursor):
        def execute(self, *a, **k):
            point("sql.execute", str(a[0]).strip().split(None, 1)[0].upper() if a else "")
            return super().execute(*a, **k)

        def executescript(self, *a, **k):
            point("sql.executescript", "")
            return super().executescript(*a, **k)

        def fetchone(self):
            point("sql.fetch", "one")
            return super().fetchone()

        def fetchall(self):
            point("sql.fetch", "all")
            return super().fetchall()

        def __next__(self):
            point("sql.fetch", "next")
            return super().__next__()

    class HConnection(sqlite3.Connection):
        def cursor(self, factory=HCursor):
            return super().cursor(factory)

        def commit(self):
            point("sql.commit", "")
            return super().commit()

        def execute(self, *a, **k):
            return self.cursor().execute(*a, **k)

    real_connect = sqlite3.connect

    def connect(database, *a, **k):
        point("sql.connect", "")
        k.setdefault("timeout", 0.2)
        k["factory"] = HConnection
        return real_connect(database, *a, **k)

    sqlite3.connect = connect


class Child(object):
    def __init__(self, idx, pid, rfd, wfd):
        self.idx, self.pid, self.rfd, self.wfd = idx, pid, rfd, wfd
        self.buf = b""
        self.pending = None
        self.exit = None
        self.trace = []

    def recv(self):
        """Wait for the child's next message (a point or its exit)."""
        deadline = time.time() + TIMEOUT
        while b"\n" not in self.buf:
            left = deadline - time.time()
            if left <= 0:
                raise EngineError("child %d silent for %.0fs (pending=%r)" % (self.idx, TIMEOUT, self.pending))
            r, _, _ = select.select([self.rfd], [], [], left)
            if r:
                data = os.read(self.rfd, 65536)
                if not data:
                    # died without an exit message
                    self.pending = None
                    self.exit = dict(ok=False, err="child died without exit message")
                    return
                self.buf += data
        line, self.buf = self.buf.split(b"\n", 1)
        msg = json.loads(line)
        if msg["t"] == "point":
            self.pending = (msg["op"], msg["arg"])
            self.trace.append(self.pending)
        else:
            self.pending = None
            self.exit = msg

    def go(self):
        os.write(self.wfd, b"g")

    def reap(self):
        for fd in (self.rfd, self.wfd):
            try:
                os.close(fd)
            except OSError:
                pass
        try:
            os.waitpid(self.pid, 0)
        except ChildProcessError:
            pass


def spawn(idx, fn, shared, sqlite_points=False, torn_writes=False):
    c2p_r, c2p_w = os.pipe()
    p2c_r, p2c_w = os.pipe()
    pid = os.fork()
    if pid == 0:
        code = 0
        try:
            os.close(c2p_r)
            os.close(p2c_w)
            signal.signal(signal.SIGINT, signal.SIG_DFL)

            def point(op, arg):
                os.write(c2p_w, (json.dumps(dict(t="point", op=op, arg=arg)) + "\n").encode())
                if not os.read(p2c_r, 1):
                    os._exit(3)

            tempfile.tempdir = shared
            tempfile._name_sequence = DetNames()
            _install_fs_hooks(shared, point, torn_writes)
            if sqlite_points:
                _install_sqlite_hooks(point)
            try:
                point("start", "")           # start offsets: the controller decides when this job begins
                res = fn()
                msg = dict(t="exit", ok=True, res=res)
            except BaseException as e:
                msg = dict(t="exit", ok=False, err="%s: %s" % (type(e).__name__, str(e)[:300]),
                           tb=traceback.format_exc()[-1200:])
            os.write(c2p_w, (json.dumps(msg, default=str) + "\n").encode())
        except BaseException:
            code = 4
        finally:
            os._exit(code)
    os.close(c2p_w)
    os.close(p2c_r)
    return Child(idx, pid, c2p_r, p2c_w)


def run_schedule(ch, fns, shared, sqlite_points=False, torn_writes=False):
    """Run one complete controlled execution; `ch` decides who moves at every step.

    Returns (children, schedule, stats)."""
    children = []
    try:
        for i, fn in enumerate(fns):
            c = spawn(i, fn, shared, sqlite_points, torn_writes)
            children.append(c)
            c.recv()                     # runs alone until its first point (or exit)
        schedule = []
        running = None
        switches = 0
        preemptions = 0
        while True:
            enabled = [c.idx for c in children if c.pending is not None]
            if not enabled:
                break
            order = ([running] if running in enabled else []) + [i for i in enabled if i != running]
            i = ch.choose("step%d" % len(schedule), order)
            if running is not None and i != running:
                switches += 1
                if running in enabled:
                    preemptions += 1
            c = children[i]
            schedule.append((i,) + tuple(c.pending))
            c.go()
            c.recv()
            running = i
        stats = dict(steps=len(schedule), switches=switches, preemptions=preemptions,
                     points=[len(c.trace) for c in children])
        return children, schedule, stats
    finally:
        for c in children:
            if c.exit is None:
                try:
                    os.kill(c.pid, signal.SIGKILL)
                except OSError:
                    pass
            c.reap()
