"""Evidence, known findings, violation artefacts, exit codes."""
import hashlib
import json
import os
import subprocess
import sys
import time

VERIF = os.path.dirname(os.path.dirname(os.path.dirname(os.path.abspath(__file__))))
KNOWN = os.path.join(VERIF, "known_findings.json")
EVIDENCE_SCHEMA = "/root/.vp/EVIDENCE.schema.json"


def load_known(prop_id):
    try:
        with open(KNOWN) as fh:
            data = json.load(fh)
    except FileNotFoundError:
        return []
    return [e for e in data.get("entries", []) if e.get("property") == prop_id]


def match_known(sig, known):
    """An *open* entry matches when every key/value of its 'match' is in sig."""
    for e in known:
        if e.get("status") != "open":
            continue
        m = e.get("match") or {}
        if m and all(sig.get(k) == v for k, v in m.items()):
            return e
    return None


def write_replay(prop_id, vdict, extra=None):
    d = os.path.join(VERIF, "replays", prop_id)
    os.makedirs(d, exist_ok=True)
    body = dict(property=prop_id, **vdict)
    if extra:
        body.update(extra)
    h = hashlib.blake2b(
        json.dumps(body, sort_keys=True, default=str).encode(), digest_size=6
    ).hexdigest()
    p = os.path.join(d, h + ".json")
    with open(p, "w") as fh:
        json.dump(body, fh, indent=1, sort_keys=True, default=str)
    return p


def validate_evidence(path):
    """Validate with the tooling venv's jsonschema (not in /venv)."""
    code = (
        "import json,sys,jsonschema;"
        "jsonschema.validate(json.load(open(sys.argv[1])),json.load(open(sys.argv[2])))"
    )
    for exe in ("python3-vt", "/opt/veriftools/pyvenv/bin/python"):
        try:
            r = subprocess.run(
                [exe, "-c", code, path, EVIDENCE_SCHEMA],
                capture_output=True, text=True, timeout=60,
            )
        except (FileNotFoundError, subprocess.TimeoutExpired):
            continue
        if r.returncode != 0:
            return False, r.stderr[-800:]
        return True, ""
    return True, "validator unavailable"


def write_evidence(prop_id, tier, seed, coverage, assumptions, wall, violations):
    os.makedirs(os.path.join(VERIF, "evidence"), exist_ok=True)
    path = os.path.join(VERIF, "evidence", prop_id + ".json")
    if os.environ.get("GV_NO_EVIDENCE"):      # mutation campaign: never touch committed evidence
        path = os.path.join("/dev/shm" if os.path.isdir("/dev/shm") else "/tmp",
                            "gv-evidence-%s-%d.json" % (prop_id, os.getpid()))
    ev = dict(
        property_id=prop_id,
        tier=tier,
        seed=int(seed),
        level="model_checking",
        coverage=coverage,
        assumptions=list(assumptions),
        wall_s=round(wall, 3),
        violations=int(violations),
    )
    tmp = path + ".tmp%d" % os.getpid()
    with open(tmp, "w") as fh:
        json.dump(ev, fh, indent=1, default=str)
        fh.write("\n")
    os.replace(tmp, path)
    ok, msg = validate_evidence(path)
    if os.environ.get("GV_NO_EVIDENCE"):
        os.unlink(path)
    if not ok:
        print("ENGINE-ERROR: evidence does not validate: %s" % msg)
        return False
    return True


def conclude(prop_id, tier, seed, *, states, transitions, executions, nontrivial,
             outcomes, samples, rule, assumptions, bounds, exhaustive, wall,
             violations, extra=None, caps=None, replay_confirm=None):
    """Common tail of every check.

    violations: dict sigkey -> [count, [violation dicts]]
    replay_confirm: callable(vdict) -> bool (violation reproduces) or None
    Returns the process exit code.
    """
    known = load_known(prop_id)
    known_hits = {}
    fresh = []
    for sigkey, (n, vs) in sorted(violations.items()):
        sig = vs[0]["sig"]
        e = match_known(sig, known)
        if e is not None:
            known_hits.setdefault(e["id"], [e, 0])[1] += n
        else:
            fresh.append((sigkey, n, vs))
    # every listed open finding is announced, whether or not this tier reached it
    for e in known:
        if e.get("status") == "open":
            hit = known_hits.get(e["id"], [e, 0])[1]
            print("KNOWN-FINDING: property=%s %s [%s; %d executions hit it in this run]"
                  % (prop_id, e["what"], e["id"], hit))
    nondeterministic = 0
    transient = []
    unconfirmed = set()
    printed = 0
    import time as _time
    t_confirm = _time.time()
    not_replayed = []
    for sigkey, n, vs in fresh:
        v = vs[0]
        # confirmation budget: once a dozen signatures have been confirmed and printed (nothing further would be printed anyway),
        # or after five minutes of replaying, the remaining signatures are listed as not replayed instead of being replayed one by
        # one (a change that keeps state between executions can produce hundreds of signatures, each needing a history replay)
        if replay_confirm is not None and printed >= 12 and (printed >= 24 or _time.time() - t_confirm > 300):
            not_replayed.append(sigkey)
            unconfirmed.add(sigkey)
            continue
        if replay_confirm is not None:
            ok = False
            for cand in vs:                      # every recorded example of this signature, then once more
                if replay_confirm(cand):
                    v, ok = cand, True
                    break
            if not ok and replay_confirm(vs[0]):
                ok = True
            if not ok:
                # Never reported as a violation: it cannot be replayed, so it cannot be trusted.  A one-off
                # (count 1) is recorded as transient (e.g. resource exhaustion on a loaded machine); a
                # signature that occurred repeatedly and still cannot be replayed means the harness does not
                # own some source of nondeterminism and is a hard engine error.
                print("%s: violation did not reproduce on replay (%d occurrence(s)): %s"
                      % ("TRANSIENT" if n == 1 else "ENGINE-ERROR", n, sigkey))
                print("   detail=%s" % json.dumps(v.get("detail"), default=str)[:1500])
                if n == 1:
                    transient.append(sigkey)
                else:
                    nondeterministic += 1
                unconfirmed.add(sigkey)
                continue
        path = write_replay(prop_id, v, dict(count=n, tier=tier, seed=seed))
        if printed < 12:
            print("VIOLATION property=%s replay=%s" % (prop_id, path))
            print("   kind=%s sig=%s count=%d" % (v["kind"], sigkey, n))
            det = json.dumps(v.get("detail"), default=str)
            print("   detail=%s" % (det[:1500],))
        printed += 1
    fresh = [x for x in fresh if x[0] not in unconfirmed]
    if fresh:
        kinds = {}
        for sigkey, n, vs in fresh:
            kinds[vs[0]["kind"]] = kinds.get(vs[0]["kind"], 0) + n
        print("   violation kinds: %s" % json.dumps(kinds, sort_keys=True))
    if printed > 12:
        print("   (%d further distinct violation signatures suppressed)" % (printed - 12))
    if not_replayed:
        print("   (%d further distinct signatures were recorded but not replayed: confirmation budget used up)" % len(not_replayed))
    coverage = dict(
        states=int(states),
        transitions=int(transitions),
        traces_validated_against_impl=int(executions),
        evaluations=int(executions),
        distinct_nontrivial=int(nontrivial),
        distinct_outcomes=int(outcomes),
        rule=rule,
        samples=(samples[:8] if samples else
                 ([dict(note="no execution completed without a violation; see the replay files")] if fresh else [])),
        exhaustive=bool(exhaustive),
        bounds=bounds,
        caps_hit=caps or [],
        known_findings_hit={k: v[1] for k, v in known_hits.items()},
        new_violation_signatures=len(fresh),
        transient_unreproducible=transient,
    )
    if extra:
        coverage.update(extra)
    ok = write_evidence(prop_id, tier, seed, coverage, assumptions, wall,
                        sum(n for _, n, _ in fresh))
    print("%s tier=%s seed=%s states=%d transitions=%d executions=%d nontrivial=%d "
          "outcomes=%d exhaustive=%s wall=%.1fs new_violations=%d known=%d"
          % (prop_id, tier, seed, states, transitions, executions, nontrivial,
             outcomes, exhaustive, wall, len(fresh),
             sum(v[1] for v in known_hits.values())))
    if nondeterministic:
        return 2
    if fresh:
        return 1            # confirmed violations are the verdict, however little else could be explored
    if not ok:
        return 2
    if nontrivial == 0 or executions == 0:
        print("ENGINE-ERROR: vacuous exploration (no non-trivial execution)")
        return 2
    if not samples:
        print("ENGINE-ERROR: no samples recorded")
        return 2
    if fresh:
        return 1
    return 0
