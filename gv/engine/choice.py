"""E1 -- stateless choice-tree explorer.

A harness body is ``body(ch, ctx)``.  Whenever it needs an input shape, an
option value, an operation or a fault position it calls ``ch.choose(label,
options)``.  The body must be deterministic given its choices.  The explorer
enumerates *all* choice sequences depth first by prefix replay.  Option 0 is
the default answer; the cost of an execution is its number of non-default
choices, which gives deviation bounding for free (``max_dev``).

The tree of one property is a forest: a property lists ``shards`` (the top-level
dimensions), every shard is explored completely inside one worker process, the
pool runs the shards in parallel.  The synthetic root has one edge per shard.

Counting: tree nodes are choice-sequence prefixes (``states``), edges are
single choices (``transitions``).  An execution with replayed prefix of length
k and total depth L adds L-k+1 new nodes (the prefix node itself was created by
this very deviation) -- for the first execution of a shard (k = 0) the L+1
nodes of the default path.
"""
import hashlib
import json
import os
import sys
import time
import traceback


class EngineError(Exception):
    """A defect of the harness/engine, never of the code under test."""


class ReplayDivergence(EngineError):
    pass


class Chooser(object):
    __slots__ = ("prefix", "pos", "labels", "sizes", "choices")

    def __init__(self, prefix=()):
        self.prefix = prefix
        self.pos = 0
        self.labels = []
        self.sizes = []
        self.choices = []

    def choose(self, label, options):
        n = len(options)
        if n == 0:
            raise EngineError("choose(%r) with no options" % (label,))
        i = self.pos
        if i < len(self.prefix):
            c = self.prefix[i]
            if c >= n:
                raise ReplayDivergence(
                    "choice %d out of range (%d options) at %r while replaying"
                    % (c, n, label)
                )
        else:
            c = 0
        self.labels.append(label)
        self.sizes.append(n)
        self.choices.append(c)
        self.pos = i + 1
        return options[c]

    def index(self, label, n):
        """Choose an integer in range(n)."""
        return self.choose(label, range(n))

    def flag(self, label):
        return self.choose(label, (False, True))


class Violation(object):
    __slots__ = ("kind", "sig", "detail", "shard", "choices", "labels")

    def __init__(self, kind, sig, detail):
        self.kind = kind
        self.sig = dict(sig or {})
        self.sig["kind"] = kind
        self.detail = detail
        self.shard = None
        self.choices = None
        self.labels = None

    def sigkey(self):
        return json.dumps(self.sig, sort_keys=True, default=str)

    def asdict(self):
        return dict(
            kind=self.kind,
            sig=self.sig,
            detail=self.detail,
            shard=self.shard,
            choices=self.choices,
            labels=self.labels,
        )


class Ctx(object):
    """Per-execution context handed to the body."""

    def __init__(self, tier, seed, shard, memo, tmpdir):
        self.tier = tier
        self.seed = seed
        self.shard = shard
        self.memo = memo  # survives across executions of this worker
        self.tmpdir = tmpdir
        self._reset(False)

    def _reset(self, want_sample):
        self.violations = []
        self.is_nontrivial = False
        self.outcome_key = None
        self.want_sample = want_sample
        self.sample_obj = None
        self.counters = {}

    # -- what the body reports -------------------------------------------
    def nontrivial(self, flag=True):
        if flag:
            self.is_nontrivial = True

    def outcome(self, key):
        self.outcome_key = key

    def count(self, name, n=1):
        self.counters[name] = self.counters.get(name, 0) + n

    def sample(self, fn):
        if self.want_sample:
            self.sample_obj = fn()

    def fail(self, kind, sig=None, **detail):
        self.violations.append(Violation(kind, sig, detail))

    def check(self, cond, kind, sig=None, **detail):
        if not cond:
            self.fail(kind, sig, **detail)
        return cond

    # -- scratch space -----------------------------------------------------
    def fresh_dir(self):
        """A new empty directory private to this worker; the previous one is removed.

        Every call returns a NEW path.  Re-using one path would let a connection that an earlier
        execution left open (e.g. an importer that raised half-way) delete or roll back, when it is
        finally garbage-collected, the journal of the current execution's database of the same name.
        """
        import shutil

        base = os.path.join(self.tmpdir, "w%d" % os.getpid())
        n = self.memo.get("_fresh_dir_n", 0) + 1
        self.memo["_fresh_dir_n"] = n
        prev = self.memo.get("_fresh_dir_prev")
        if prev:
            shutil.rmtree(prev, ignore_errors=True)
        d = os.path.join(base, "e%d" % n)
        os.makedirs(d)
        self.memo["_fresh_dir_prev"] = d
        return d


def _hash(obj):
    return hashlib.blake2b(
        json.dumps(obj, sort_keys=True, default=str).encode("utf-8"), digest_size=8
    ).hexdigest()


class ShardResult(object):
    def __init__(self):
        self.executions = 0
        self.nodes = 0
        self.edges = 0
        self.maxdepth = 0
        self.nontrivial = 0
        self.outcomes = set()
        self.samples = []
        self.violations = {}  # sigkey -> [count, [Violation dicts]]
        self.counters = {}
        self.devhist = {}
        self.pruned_by_bound = 0
        self.wall = 0.0

    def merge(self, o):
        self.executions += o.executions
        self.nodes += o.nodes
        self.edges += o.edges
        self.maxdepth = max(self.maxdepth, o.maxdepth)
        self.nontrivial += o.nontrivial
        self.outcomes |= o.outcomes
        self.samples.extend(o.samples)
        for k, (n, vs) in o.violations.items():
            cur = self.violations.setdefault(k, [0, []])
            cur[0] += n
            cur[1].extend(vs[: max(0, 3 - len(cur[1]))])
        for k, v in o.counters.items():
            self.counters[k] = self.counters.get(k, 0) + v
        for k, v in o.devhist.items():
            self.devhist[k] = self.devhist.get(k, 0) + v
        self.pruned_by_bound += o.pruned_by_bound
        self.wall += o.wall


def run_once(body, ctx, prefix, want_sample=False, expect_sizes=None):
    """Run the body on one choice sequence.  Returns the Chooser."""
    ch = Chooser(prefix)
    ctx._reset(want_sample)
    try:
        body(ch, ctx)
    except EngineError:
        raise
    except Exception as e:  # an exception escaping the harness is a finding
        ctx.fail(
            "harness-exception",
            {"exc": type(e).__name__},
            message=str(e)[:500],
            traceback=traceback.format_exc()[-2000:],
        )
    if ch.pos < len(prefix):
        if ctx.violations:
            # the body stopped early BECAUSE it had something to report (e.g. the code under test failed before the point
            # where the recorded execution made its next choice: it keeps state between executions); that is a finding
            # about the code, not a defect of the harness -- the violation stands, nothing is expanded below it
            return ch
        raise ReplayDivergence(
            "body made %d choices, prefix has %d" % (ch.pos, len(prefix))
        )
    if expect_sizes is not None:
        k = len(expect_sizes)
        if ch.sizes[:k] != list(expect_sizes):
            raise ReplayDivergence(
                "option counts changed while replaying prefix: %r vs %r (labels %r)"
                % (ch.sizes[:k], list(expect_sizes), ch.labels[:k])
            )
    return ch


def explore_shard(body, ctx, max_dev=None, sample_every=0, max_exec=None):
    """Depth-first enumeration of every choice sequence of one shard."""
    res = ShardResult()
    t0 = time.time()
    # stack entries: (prefix tuple, expected sizes of prefix[:-1] + n at last)
    stack = [((), ())]
    while stack:
        prefix, exp = stack.pop()
        want = res.executions == 0 or (
            sample_every and res.executions % sample_every == 0 and len(res.samples) < 3
        )
        ch = run_once(body, ctx, prefix, want_sample=want, expect_sizes=exp)
        k = len(prefix)
        L = len(ch.choices)
        res.executions += 1
        new_nodes = (L - k + 1) if k else (L + 1)
        res.nodes += new_nodes
        res.edges += new_nodes if k else L
        if L > res.maxdepth:
            res.maxdepth = L
        if ctx.is_nontrivial:
            res.nontrivial += 1
        if ctx.outcome_key is not None:
            res.outcomes.add(ctx.outcome_key)
        for name, n in ctx.counters.items():
            res.counters[name] = res.counters.get(name, 0) + n
        dev = sum(1 for c in ch.choices if c)
        res.devhist[dev] = res.devhist.get(dev, 0) + 1
        if want and ctx.sample_obj is not None:
            res.samples.append(
                dict(shard=ctx.shard, choices=list(ch.choices), case=ctx.sample_obj)
            )
        for v in ctx.violations:
            v.shard = ctx.shard
            v.choices = list(ch.choices)
            v.labels = [str(x) for x in ch.labels]
            cur = res.violations.setdefault(v.sigkey(), [0, []])
            cur[0] += 1
            if len(cur[1]) < 3:
                cur[1].append(v.asdict())
        # children: deviate at every position at or after the replayed prefix
        sizes = ch.sizes
        choices = ch.choices
        devs_before = sum(1 for c in choices[:k] if c)
        # push so that the deepest position is popped first
        for i in range(k, L):
            n = sizes[i]
            if n > 1:
                if max_dev is not None and devs_before + 1 > max_dev:
                    res.pruned_by_bound += n - 1
                else:
                    base = tuple(choices[:i])
                    exps = tuple(sizes[: i + 1])
                    for alt in range(n - 1, 0, -1):
                        stack.append((base + (alt,), exps))
            if choices[i]:
                devs_before += 1  # cannot happen beyond prefix (defaults are 0)
        if max_exec is not None and res.executions >= max_exec:
            res.counters["cap_hit"] = 1
            break
    res.wall = time.time() - t0
    return res
