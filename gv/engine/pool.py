"""Run the shards of one property on a fork pool and merge the results."""
import atexit
import multiprocessing
import os
import shutil
import sys
import tempfile
import time

from gv.engine import choice

_STATE = {}


_SCRATCH = []


def scratch_root():
    base = "/dev/shm" if os.path.isdir("/dev/shm") and os.access("/dev/shm", os.W_OK) else None
    d = tempfile.mkdtemp(prefix="gv-", dir=base)
    _SCRATCH.append((os.getpid(), d))
    atexit.register(shutil.rmtree, d, True)
    return d


def cleanup_scratch():
    """Remove the scratch roots this very process created (forked helpers exit without atexit)."""
    me = os.getpid()
    for pid, d in list(_SCRATCH):
        if pid == me:
            shutil.rmtree(d, ignore_errors=True)
            _SCRATCH.remove((pid, d))


def quiet_stderr():
    """gffutils writes progress chatter to stderr; silence it in workers."""
    if os.environ.get("GV_DEBUG"):
        return
    devnull = os.open(os.devnull, os.O_WRONLY)
    os.dup2(devnull, 2)
    os.close(devnull)


def _init_worker():
    quiet_stderr()
    st = _STATE
    d = os.path.join(st["tmpdir"], "p%d" % os.getpid())
    os.makedirs(d, exist_ok=True)
    st["wdir"] = d
    tempfile.tempdir = d
    st["memo"] = {}
    import warnings

    warnings.simplefilter("ignore")


def _work(i):
    st = _STATE
    shard = st["shards"][i]
    ctx = choice.Ctx(st["tier"], st["seed"], shard, st["memo"], st["wdir"])
    ctx.shard_index = i
    hist = st.setdefault("hist", [])
    before = list(hist)
    try:
        res = choice.explore_shard(
            st["body"],
            ctx,
            max_dev=st["max_dev"],
            sample_every=st["sample_every"],
            max_exec=st["max_exec"],
        )
    except choice.EngineError as e:
        return ("engine-error", i, repr(e))
    hist.append(i)
    # what this worker process had executed before this shard: needed to replay violations that only
    # manifest because of state the code under test keeps between independent calls
    for n, vs in res.violations.values():
        for v in vs:
            v["worker_history"] = before
            v["shard_index"] = i
    return ("ok", i, res)


def explore(body, shards, tier, seed, jobs=None, max_dev=None, sample_every=0,
            max_exec=None, progress=None):
    """Explore every shard completely; returns the merged ShardResult."""
    jobs = jobs or int(os.environ.get("GV_JOBS", "0")) or min(16, os.cpu_count() or 1)
    tmpdir = scratch_root()
    _STATE.update(
        body=body, shards=list(shards), tier=tier, seed=seed, tmpdir=tmpdir,
        max_dev=max_dev, sample_every=sample_every, max_exec=max_exec,
    )
    total = choice.ShardResult()
    n = len(_STATE["shards"])
    order = list(range(n))
    # the seed only changes the order in which shards are handed out
    import random

    random.Random(seed).shuffle(order)
    t0 = time.time()
    errors = []
    if jobs == 1 or n == 1:
        _init_worker_inline()
        results = map(_work, order)
        pool = None
    else:
        ctx = multiprocessing.get_context("fork")
        pool = ctx.Pool(min(jobs, n), initializer=_init_worker)
        results = pool.imap_unordered(_work, order, chunksize=1)
    done = 0
    try:
        for status, i, res in results:
            done += 1
            if status != "ok":
                errors.append((i, res))
                continue
            total.merge(res)
            if progress and done % progress == 0:
                print("  .. %d/%d shards, %d executions, %.0fs" % (
                    done, n, total.executions, time.time() - t0), flush=True)
    finally:
        if pool is not None:
            pool.close()
            pool.join()
    total.shards = n
    total.elapsed = time.time() - t0
    if errors:
        raise choice.EngineError("engine errors in shards: %r" % (errors[:3],))
    # synthetic root: one edge per shard
    total.nodes += 1
    total.edges += n
    return total


def _init_worker_inline():
    st = _STATE
    d = os.path.join(st["tmpdir"], "p%d" % os.getpid())
    os.makedirs(d, exist_ok=True)
    st["wdir"] = d
    tempfile.tempdir = d
    st["memo"] = {}
    import warnings

    warnings.simplefilter("ignore")


def replay_with_history(body, shards, v, tier, seed, max_dev=None):
    """Re-run, in a fresh process, every shard the reporting worker had explored before, then the
    violation's own shard; True iff a violation with the same signature shows up again there."""
    import json

    want = json.dumps(v["sig"], sort_keys=True, default=str)
    ctxmp = multiprocessing.get_context("fork")
    q = ctxmp.Queue()

    def child():
        try:
            _STATE.update(body=body, shards=list(shards), tier=tier, seed=seed, tmpdir=scratch_root(),
                          max_dev=max_dev, sample_every=0, max_exec=None)
            _STATE.pop("hist", None)
            _init_worker()
            for i in list(v.get("worker_history") or []):
                _work(i)
            status, _, res = _work(v["shard_index"])
            q.put(bool(status == "ok" and want in res.violations))
        except BaseException as e:      # pragma: no cover
            q.put(False)
        finally:
            cleanup_scratch()

    p = ctxmp.Process(target=child)
    p.start()
    try:
        ok = q.get(timeout=3600)
    except Exception:
        ok = False
    p.join(30)
    if p.is_alive():
        p.kill()
    return ok


def replay_isolated(body, v, tier, seed):
    """One execution from its recorded choices, in a fresh forked process (the controlling process
    never runs the code under test, so it cannot carry state from one replay into the next)."""
    import json

    want = json.dumps(v["sig"], sort_keys=True, default=str)
    ctxmp = multiprocessing.get_context("fork")
    q = ctxmp.Queue()

    def child():
        try:
            quiet_stderr()
            ch, ctx = replay(body, v["shard"], v["choices"], tier, seed)
            q.put(any(x.sigkey() == want for x in ctx.violations))
        except BaseException:
            q.put(False)
        finally:
            cleanup_scratch()

    p = ctxmp.Process(target=child)
    p.start()
    try:
        ok = q.get(timeout=1800)
    except Exception:
        ok = False
    p.join(30)
    if p.is_alive():
        p.kill()
    return ok


def replay(body, shard, choices, tier, seed):
    """Re-run exactly one execution (no exploration)."""
    tmpdir = scratch_root()
    d = os.path.join(tmpdir, "replay")
    os.makedirs(d)
    tempfile.tempdir = d
    ctx = choice.Ctx(tier, seed, shard, {}, d)
    ch = choice.run_once(body, ctx, tuple(choices), want_sample=True)
    return ch, ctx
