"""Engine self-tests: enumeration counts against closed forms."""
import sys

from gv.engine import choice


def main():
    # full product 2 x 3 x 4 = 24 executions; nodes = 1 + 2 + 6 + 24 = 33
    def body(ch, ctx):
        a = ch.index("a", 2)
        b = ch.index("b", 3)
        c = ch.index("c", 4)
        ctx.outcome((a, b, c))
        ctx.nontrivial()

    ctx = choice.Ctx("quick", 0, None, {}, "/tmp")
    r = choice.explore_shard(body, ctx)
    assert r.executions == 24 and r.nodes == 33 and r.edges == 32 and len(r.outcomes) == 24, vars(r)
    # deviation bound 1: default path + (1 + 2 + 3) single deviations
    r = choice.explore_shard(body, ctx, max_dev=1)
    assert r.executions == 7, r.executions
    r = choice.explore_shard(body, ctx, max_dev=2)
    assert r.executions == 7 + (1 * 2 + 1 * 3 + 2 * 3), r.executions

    # data-dependent tree: depth depends on earlier choices
    def body2(ch, ctx):
        n = ch.index("n", 4)
        xs = [ch.index("x%d" % i, 2) for i in range(n)]
        ctx.outcome((n, tuple(xs)))

    r = choice.explore_shard(body2, ctx)
    assert r.executions == 1 + 2 + 4 + 8 and len(r.outcomes) == 15, r.executions

    # divergence while replaying must be a hard error
    state = {"n": 0}

    def body3(ch, ctx):
        state["n"] += 1
        ch.index("a", 3 if state["n"] == 1 else 2)
        ch.index("b", 2)

    try:
        choice.explore_shard(body3, ctx)
    except choice.ReplayDivergence:
        pass
    else:
        raise AssertionError("divergence not detected")
    print("selftest ok")


if __name__ == "__main__":
    main()
