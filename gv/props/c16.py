"""C16 -- merge() computes the interval union and partitions its inputs (E1)."""
import itertools
import os

import gffutils
from gffutils import merge_criteria as mc

from gv.model import dbutil

ID = "C16"
RULE = (
    "Part 'merge' (shards = 14 criteria sets x blocks of multisets): every start-ordered multiset of <= 3 intervals over 6 positions "
    "plus all 4-multisets over 4 positions (quick, 2738) / <= 5 intervals over 6 positions (thorough, 65779) x seqid/strand/type "
    "pattern {uniform, last differs in strand, type, seqid, a sequence name holding a comma (<= 2 members only)} x object history "
    "{fresh, previously merged under 'exact', merged twice, outputs re-merged, after children_bp calls}; criteria = default, 9 library "
    "sets, two custom predicates (one answering with non-bool values) and the empty list, given as list/tuple/iterator/generator in "
    "rotation. The real merge() output is compared with a reference run-builder: partition, extents, fresh distinct ids, singletons, "
    "inputs unchanged, repeatability, default-criteria extents equal an independent interval union, no exception; database unchanged on "
    "sampled executions. Part 'db': multisets of <= 3 members (quick: all) x {merge_all, merge_all exclude_components, merge_all with "
    "end-threshold-2 and with exact criteria, merge_all over two featuretype groups (exon + CDS copies, each merged on its own), "
    "children_bp, children_bp merge} x ascending/descending file order on real file databases whose exons are children of the "
    "transcript and, at two levels, of the gene: result count, stored extents, result visible through a second connection, components "
    "deleted or related, singletons kept; children_bp value via transcript and via gene, keyword = positional call, database unchanged. "
    "Part 'scale' (2 executions): 1700 exons with one 1300-member run, merge_all with both exclude_components settings. Non-trivial = "
    "the reference partition has a multi-member run and a run boundary, or objects are not fresh (merge); a multi-member run (db); "
    "every scale execution. children_bp without `merge` must equal merge=False (the documented default)."
)
ASSUMPTIONS = [
    "criteria sets are such that an ambiguous accumulated field (seqid list, '.', 'sequence_feature') is never consulted",
    "merged ids are required to be distinct from each other and from the inputs' ids, not to have a particular value",
    "inputs to merge() are start-ordered (grouped by seqid/strand/type where the pattern mixes them)",
    "a sequence name containing a comma (not valid unescaped in GFF3 column 1) is only judged on runs of at most two members: "
    "identical names must count as the same sequence; with a third member the accumulated, comma-joined name would be consulted",
]


def two_max(acc, cur, components):
    return len(components) < 2


def overlap_falsy(acc, cur, components):
    """Accepts with a truthy non-bool, rejects with falsy non-bools (0, None, empty list) -- still a valid predicate."""
    if acc.start <= cur.start <= acc.end + 1:
        return acc.end + 2 - cur.start          # an overlap length: 1 or more
    return (0, None, [])[cur.start % 3]


CRITERIA = [
    ("default", None),
    ("seqid+any", lambda: [mc.seqid, mc.overlap_any_inclusive]),
    ("seqid+start", lambda: [mc.seqid, mc.overlap_start_inclusive]),
    ("exact", lambda: [mc.seqid, mc.exact_coordinates_only]),
    ("end_thr0", lambda: [mc.seqid, mc.overlap_end_threshold(0)]),
    ("end_thr2", lambda: [mc.seqid, mc.overlap_end_threshold(2)]),
    ("any_thr1", lambda: [mc.seqid, mc.overlap_any_threshold(1)]),
    ("any_thr2", lambda: [mc.seqid, mc.overlap_any_threshold(2)]),
    ("any_thr0", lambda: [mc.seqid, mc.overlap_any_threshold(0)]),
    ("start_thr1", lambda: [mc.seqid, mc.overlap_start_threshold(1)]),
    ("start_thr3", lambda: [mc.seqid, mc.overlap_start_threshold(3)]),      # a threshold longer than the short features
    ("custom_two_max", lambda: [mc.seqid, mc.overlap_end_inclusive, two_max]),
    ("custom_falsy", lambda: [mc.seqid, overlap_falsy]),
    ("no_criteria", lambda: []),
]

# reference predicates written from the criteria's documentation: (acc_start, acc_end, f_start, f_end, n_components)
REF = {
    "default": lambda a, b, s, e, n: a <= s <= b + 1,
    "seqid+any": lambda a, b, s, e, n: a <= s <= b + 1 or a <= e + 1 <= b + 1,
    "seqid+start": lambda a, b, s, e, n: a <= e + 1 <= b + 1,
    "exact": lambda a, b, s, e, n: s == a and e == b,
    "end_thr0": lambda a, b, s, e, n: a <= s <= b,
    "end_thr2": lambda a, b, s, e, n: a <= s <= b + 2,
    "any_thr1": lambda a, b, s, e, n: a - 1 <= e + 1 <= b + 1 or a <= s <= b + 1,
    "any_thr2": lambda a, b, s, e, n: a - 2 <= e + 1 <= b + 1 or a <= s <= b + 2,
    "any_thr0": lambda a, b, s, e, n: a <= e + 1 <= b + 1 or a <= s <= b,
    "start_thr1": lambda a, b, s, e, n: a - 1 <= e + 1 <= b + 1,
    "start_thr3": lambda a, b, s, e, n: a - 3 <= e + 1 <= b + 1,
    "custom_two_max": lambda a, b, s, e, n: a <= s <= b + 1 and n < 2,
    "custom_falsy": lambda a, b, s, e, n: a <= s <= b + 1,
    "no_criteria": lambda a, b, s, e, n: True,         # nothing to object: everything joins the first run
}
PATTERNS = ("uniform", "last_strand", "last_type", "last_seqid", "comma_seqid")
HISTORIES = ("fresh", "premerged_exact", "twice", "outputs", "after_children_bp")


def multisets(npos, k):
    ivs = [(a, b) for a in range(1, npos + 1) for b in range(a, npos + 1)]
    return [c for c in itertools.combinations_with_replacement(ivs, k) if list(c) == sorted(c, key=lambda x: x[0])]


_C = {}


def msets(tier):
    if tier not in _C:
        kmax = 3 if tier == "quick" else 5
        out = []
        for k in range(1, kmax + 1):
            out += multisets(6, k)
        if tier == "quick":
            out += multisets(4, 4)          # the smallest inputs with two separate multi-member runs
        _C[tier] = out
    return _C[tier]


def bounds(tier):
    return dict(multisets=len(msets(tier)), positions=6, criteria=[c[0] for c in CRITERIA], patterns=list(PATTERNS), histories=list(HISTORIES))


def shards(tier):
    n = len(msets(tier))
    step = 16 if tier == "quick" else 64
    out = [("merge", ci, i, min(i + step, n)) for ci in range(len(CRITERIA)) for i in range(0, n, step)]
    n3 = len([m for m in msets(tier) if len(m) <= 3 or tier == "quick"])
    out += [("db", None, i, min(i + 8, n3)) for i in range(0, n3, 8)]
    out.append(("scale", None, 0, 0))
    return out


def get_db(ctx):
    if "db" not in ctx.memo:
        d = os.path.join(ctx.tmpdir, "c16-%d" % os.getpid())
        os.makedirs(d, exist_ok=True)
        p = dbutil.write_text(d, "in.gff", "c1\ts\tgene\t1\t9\t.\t+\t.\tID=g0\n")
        ctx.memo["db"] = gffutils.create_db(p, os.path.join(d, "o.db"), verbose=False, force=True)
        ctx.memo["canon"] = dbutil.canon(ctx.memo["db"])
    return ctx.memo["db"]


def ref_runs(rows, cname, default_keys):
    """rows: list of (seqid, strand, ft, start, end) -> list of runs (lists of indices)"""
    runs, cur = [], None
    for i, (sq, st, ft, s, e) in enumerate(rows):
        if cur is None:
            cur = [i]
            continue
        a = min(rows[j][3] for j in cur)
        b = max(rows[j][4] for j in cur)
        first = rows[cur[0]]
        ok = (first[0] == sq or cname == "no_criteria") and REF[cname](a, b, s, e, len(cur))
        if default_keys:
            ok = ok and first[1] == st and first[2] == ft
        if ok:
            cur.append(i)
        else:
            runs.append(cur)
            cur = [i]
    if cur:
        runs.append(cur)
    return runs


def union_extents(rows):
    """independent interval union per (seqid, strand, ft); adjacent intervals join"""
    out = []
    groups = {}
    for r in rows:
        groups.setdefault(r[:3], []).append((r[3], r[4]))
    for key, ivs in groups.items():
        covered = sorted(set(p for a, b in ivs for p in range(a, b + 1)))
        start = prev = covered[0]
        for p in covered[1:]:
            if p != prev + 1:
                out.append(key + (start, prev))
                start = p
            prev = p
        out.append(key + (start, prev))
    return sorted(out)


def build(rows):
    return [gffutils.Feature(seqid=sq, source="s", featuretype=ft, start=s, end=e, strand=st, attributes={"ID": ["i%d" % i]}, id="i%d" % i)
            for i, (sq, st, ft, s, e) in enumerate(rows)]


def run_merge(db, objs, crit, form="list"):
    if crit is None:
        return list(db.merge(objs))
    c = crit()
    # the criteria may be handed over as any iterable
    c = {"list": c, "tuple": tuple(c), "iterator": iter(c), "generator": (x for x in c)}[form]
    return list(db.merge(objs, merge_criteria=c))


def describe(outs, objs):
    """-> partition as list of lists of input indices, extents, ids"""
    idx = {id(o): i for i, o in enumerate(objs)}
    part, ext, ids, problems = [], [], [], []
    for o in outs:
        kids = getattr(o, "children", None)
        if kids:
            part.append([idx.get(id(k), -1) for k in kids])
            ids.append(o.id)
        else:
            part.append([idx.get(id(o), -1)])
            if kids is None or len(kids) != 0:
                problems.append("singleton without empty children")
        ext.append((o.start, o.end))
    return part, ext, ids, problems


def body_merge(ch, ctx):
    _, ci, i0, i1 = ctx.shard
    cname, crit = CRITERIA[ci]
    ms = ch.choose("multiset", msets(ctx.tier)[i0:i1])
    pattern = ch.choose("pattern", PATTERNS)
    history = ch.choose("history", HISTORIES)
    n = len(ms)
    if pattern == "comma_seqid" and n > 2:
        # all features on one sequence whose NAME holds a comma; only demanded for runs of at most two members (the accumulated
        # feature's seqid is a comma-joined list, so with a third member an ambiguous field would be consulted)
        ctx.outcome("comma-seqid-skipped")
        return
    rows = []
    for i, (s, e) in enumerate(ms):
        sq, st, ft = ("s1,s2" if pattern == "comma_seqid" else "c1"), "+", "exon"
        if i == n - 1 and n > 1:
            if pattern == "last_strand":
                st = "-"
            elif pattern == "last_type":
                ft = "CDS"
            elif pattern == "last_seqid":
                sq = "c2"
        rows.append((sq, st, ft, s, e))
    if cname != "default" and pattern in ("last_strand", "last_type"):
        pass        # those criteria sets ignore strand/type: members may differ, ambiguous fields are not consulted
    db = get_db(ctx)
    objs = build(rows)
    before = [str(o) for o in objs]
    form = ("list", "tuple", "iterator", "generator")[(len(ms) + sum(a + b for a, b in ms) + ci) % 4]      # rotated, not multiplied
    _rm = run_merge
    run_merge_f = lambda db_, objs_, crit_: _rm(db_, objs_, crit_, form)
    sig = dict(criteria=cname, pattern=pattern, history=history, criteria_given_as=form)
    ctx.sample(lambda: dict(intervals=list(ms), criteria=cname, pattern=pattern, history=history))
    try:
        if history == "after_children_bp":
            db.children_bp("g0", child_featuretype="exon", merge=True)
            db.children_bp("g0", child_featuretype="exon")
            outs = run_merge_f(db, objs, crit)
        elif history == "premerged_exact":
            run_merge(db, objs, CRITERIA[3][1])
            outs = run_merge_f(db, objs, crit)
        elif history == "twice":
            first = describe(run_merge_f(db, objs, crit), objs)
            outs = run_merge_f(db, objs, crit)
        elif history == "outputs":
            first_outs = run_merge_f(db, objs, crit)
            rows2 = [(o.seqid.split(",")[0], o.strand, o.featuretype, o.start, o.end) for o in first_outs]
            objs2 = first_outs
            outs = run_merge_f(db, objs2, crit)
        else:
            outs = run_merge_f(db, objs, crit)
    except Exception as ex:
        ctx.fail("merge-raised", dict(sig, exc=type(ex).__name__), intervals=list(ms), message=str(ex)[:200])
        ctx.nontrivial(history != "fresh")
        return
    if history == "outputs":
        # second-stage inputs are the first-stage outputs; ambiguous fields would be consulted only if strand/type differ
        if any(o.strand == "." or o.featuretype == "sequence_feature" or "," in o.seqid for o in objs2):
            ctx.outcome("ambiguous-stage2")
            return
        rows_eff, objs_eff = rows2, objs2
    else:
        rows_eff, objs_eff = rows, objs
    exp_runs = ref_runs(rows_eff, cname, cname == "default")
    part, ext, ids, problems = describe(outs, objs_eff)
    multi = any(len(r) > 1 for r in exp_runs)
    ctx.nontrivial((multi and len(exp_runs) > 1) or history != "fresh")
    ctx.outcome((cname, pattern, history, tuple(len(r) for r in exp_runs)))
    ctx.check(not problems, "singleton-output-malformed", sig, problems=problems)
    ctx.check(part == exp_runs, "partition-differs", sig, intervals=[r[3:] for r in rows_eff], rows=rows_eff, got=part, expected=exp_runs)
    exp_ext = [(min(rows_eff[j][3] for j in r), max(rows_eff[j][4] for j in r)) for r in exp_runs]
    ctx.check(ext == exp_ext, "extent-differs", sig, intervals=[r[3:] for r in rows_eff], got=ext, expected=exp_ext)
    in_ids = {o.id for o in objs_eff}
    ctx.check(len(set(ids)) == len(ids) and not (set(ids) & in_ids) and all(ids), "merged-ids-not-fresh-and-distinct", sig, ids=ids)
    if history != "outputs":
        ctx.check([str(o) for o in objs] == before, "inputs-modified", sig, before=before, after=[str(o) for o in objs])
    if history == "twice":
        ctx.check((part, ext) == (first[0], first[1]), "second-merge-differs", sig, first=first[:2], second=[part, ext])
    if cname == "default" and history != "outputs":
        grouped = sorted(range(n), key=lambda i: (rows[i][0], rows[i][2], rows[i][1], rows[i][3])) == list(range(n)) or True
        got_u = sorted((rows[r[0]][0], rows[r[0]][1], rows[r[0]][2]) + e_ for r, e_ in zip(part, ext) if all(0 <= j < n for j in r))
        # only comparable when members of different groups are not interleaved (they are not: the odd one out is last)
        ctx.check(got_u == union_extents(rows), "default-criteria-extents-differ-from-interval-union", sig,
                  intervals=[r[3:] for r in rows], got=got_u, expected=union_extents(rows))
    if ctx.want_sample:
        ctx.check(dbutil.canon(db) == ctx.memo["canon"], "database-modified-by-merge", sig)


def body_db(ch, ctx):
    _, _, i0, i1 = ctx.shard
    m3 = [m for m in msets(ctx.tier) if len(m) <= 3 or ctx.tier == "quick"]
    ms = ch.choose("multiset", m3[i0:i1])
    op = ch.choose("operation", ("merge_all", "merge_all_exclude", "children_bp", "children_bp_merge", "merge_all_thr2", "merge_all_exact", "merge_all_two_groups"))
    file_order = ch.choose("file_order", ("ascending", "descending"))
    # every exon names both its transcript and the gene: it is a child of g1 at level 1 AND (through t1) at level 2
    lines = ["c1\ts\tgene\t1\t9\t.\t+\t.\tID=g1", "c1\ts\tmRNA\t1\t9\t.\t+\t.\tID=t1;Parent=g1"]
    exon_lines = ["c1\ts\texon\t%d\t%d\t.\t+\t.\tID=x%d;Parent=t1,g1" % (s, e, i) for i, (s, e) in enumerate(ms)]
    lines += exon_lines if file_order == "ascending" else exon_lines[::-1]
    if op == "merge_all_two_groups":
        # a second featuretype group with the same intervals: each group is merged on its own
        lines += ["c1\ts\tCDS\t%d\t%d\t.\t+\t0\tID=c%d;Parent=t1" % (s, e, i) for i, (s, e) in enumerate(ms)]
    wd = ctx.fresh_dir()
    path = dbutil.write_text(wd, "in.gff", "\n".join(lines) + "\n")
    db = gffutils.create_db(path, os.path.join(wd, "o.db"), verbose=False)
    rows = [("c1", "+", "exon", s, e) for s, e in ms]
    crit_name = {"merge_all_thr2": "end_thr2", "merge_all_exact": "exact"}.get(op, "default")
    # merge_all feeds merge() in (seqid, featuretype, strand, start) order; equal starts keep file order only by accident,
    # so the reference is computed for the start-ordered rows and compared as sets of runs' extents
    runs = ref_runs(rows, crit_name, crit_name == "default")
    ctx.sample(lambda: dict(intervals=list(ms), operation=op))
    ctx.nontrivial(any(len(r) > 1 for r in runs))
    ctx.outcome((op, tuple(len(r) for r in runs)))
    sig = dict(operation=op)
    if op.startswith("children_bp"):
        before = dbutil.canon(db)
        merge = op.endswith("merge")
        got = db.children_bp("t1", child_featuretype="exon", merge=merge)
        positional = db.children_bp("t1", "exon", merge)            # the same call with positional arguments
        if not merge:
            dflt = db.children_bp("t1", child_featuretype="exon")          # the documented default is the plain sum
            ctx.check(dflt == got, "children_bp-default-differs-from-merge-False", sig, default=dflt, explicit=got)
        ctx.check(positional == got, "children_bp-positional-call-differs", sig, keyword=got, positional=positional)
        exp = len({p for s, e in ms for p in range(s, e + 1)}) if merge else sum(e - s + 1 for s, e in ms)
        ctx.check(got == exp, "children_bp-differs", sig, intervals=list(ms), got=got, expected=exp)
        via_gene = db.children_bp("g1", child_featuretype="exon", merge=merge)       # related at two levels: still each exon once
        ctx.check(via_gene == exp, "children_bp-differs", dict(sig, parent="related-at-two-levels"), intervals=list(ms), got=via_gene, expected=exp)
        ctx.check(dbutil.canon(db) == before, "database-modified-by-children_bp", sig)
        return
    excl = op.endswith("exclude")
    mkw = {}
    if crit_name != "default":
        mkw["merge_criteria"] = dict(CRITERIA)[crit_name]()
    groups = (("exon",), ("CDS",)) if op == "merge_all_two_groups" else (("exon",),)
    try:
        res = db.merge_all(exclude_components=excl, featuretypes_groups=groups, **mkw)
    except Exception as ex:
        ctx.fail("merge_all-raised", dict(sig, exc=type(ex).__name__), intervals=list(ms), message=str(ex)[:200])
        return
    multi = [r for r in runs if len(r) > 1]
    ngroups = len(groups)
    ctx.check(len(res) == ngroups * len(multi), "merge_all-result-count-differs", sig, intervals=list(ms), got=len(res), expected=ngroups * len(multi))
    c = dbutil.canon(db)
    ids = [r[0] for r in c["features"]]
    on_disk = dbutil.canon(os.path.join(wd, "o.db"))          # through a second connection: what a reopening process would see
    ctx.check(dbutil.content_only(on_disk) == dbutil.content_only(c), "merge_all-result-not-committed", sig, intervals=list(ms),
              live=[r[0] for r in c["features"]], on_disk=[r[0] for r in on_disk["features"]],
              live_relations=len(c["relations"]), on_disk_relations=len(on_disk["relations"]))
    new = [r for r in c["features"] if r[0] not in {"t1", "g1"} | {"x%d" % i for i in range(len(ms))} | {"c%d" % i for i in range(len(ms))}]
    exp_ext = sorted(ngroups * [(min(rows[j][3] for j in r), max(rows[j][4] for j in r)) for r in multi])
    ctx.check(sorted((r[4], r[5]) for r in new) == exp_ext, "merge_all-stored-extents-differ", sig, intervals=list(ms),
              got=sorted((r[4], r[5]) for r in new), expected=exp_ext)
    for r in multi:
        ext = (min(rows[j][3] for j in r), max(rows[j][4] for j in r))
        owner = [x[0] for x in new if (x[4], x[5]) == ext]
        for j in [("x", j) for j in r] + ([("c", j) for j in r] if ngroups == 2 else []):
            mid = "%s%d" % j
            if excl:
                ctx.check(mid not in ids, "merge_all-component-not-deleted", sig, intervals=list(ms), id=mid)
            else:
                ok = mid in ids and any((o, mid, 1) in c["relations"] for o in owner)
                ctx.check(ok, "merge_all-component-not-related", sig, intervals=list(ms), id=mid, owners=owner,
                          relations=[x for x in c["relations"] if x[1] == mid])
    for r in runs:
        if len(r) == 1:
            ctx.check("x%d" % r[0] in ids, "merge_all-lost-singleton", sig, intervals=list(ms), id="x%d" % r[0])
    dbutil.close_db(db)


def body_scale(ch, ctx):
    """One large database: a chain of 1300 overlapping exons (one run) plus 400 scattered singles."""
    excl = ch.flag("exclude_components")
    lines = []
    for i in range(1300):
        lines.append("c1\ts\texon\t%d\t%d\t.\t+\t.\tID=x%d" % (1 + 7 * i, 10 + 7 * i, i))
    for i in range(400):
        lines.append("c2\ts\texon\t%d\t%d\t.\t+\t.\tID=y%d" % (1 + 50 * i, 10 + 50 * i, i))
    wd = ctx.fresh_dir()
    db = gffutils.create_db(dbutil.write_text(wd, "big.gff", "\n".join(lines) + "\n"), os.path.join(wd, "big.db"), verbose=False)
    res = db.merge_all(exclude_components=excl)
    ctx.sample(lambda: dict(scale="1300 chained + 400 scattered exons", exclude_components=excl, merged=len(res)))
    ctx.nontrivial()
    ctx.outcome(("scale", excl, len(res)))
    sig = dict(operation="merge_all_scale")
    ext = sorted((f.seqid, f.start, f.end, len(f.children)) for f in res)
    ctx.check(ext == [("c1", 1, 10 + 7 * 1299, 1300)], "merge_all-large-run-split", sig, got=ext[:4], expected=[("c1", 1, 10 + 7 * 1299, 1300)])
    n = db.count_features_of_type()
    ctx.check(n == (1 + 400 if excl else 1701), "merge_all-feature-count-differs", sig, got=n)
    total = db.children_bp(res[0], child_featuretype="exon", merge=True) if (res and not excl) else None
    if total is not None:
        ctx.check(total == 10 + 7 * 1299, "children_bp-differs", sig, got=total)
    dbutil.close_db(db)


def body(ch, ctx):
    if ctx.shard[0] == "merge":
        body_merge(ch, ctx)
    elif ctx.shard[0] == "scale":
        body_scale(ch, ctx)
    else:
        body_db(ch, ctx)
