"""C11 -- feature-type/strand filters, ordering and counts agree with a full scan (E1, memoised database)."""
import os

import gffutils

from gv.model import dbutil

ID = "C11"
RULE = (
    "One memoised 20-feature file database (thorough: also a 34-feature one = the 20 plus 14 shifted copies) with mixed-case / "
    "non-ASCII seqids, numeric-looking scores, ties in every column, '.' coordinates, extra columns and featuretypes differing only by "
    "case ('CDS'/'cds'), by an SQL-wildcard position ('five-prime-UTR') or holding a quote (5'UTR). Part 'query' (shards = database x "
    "method {all_features, features_of_type} x featuretype (12 forms: None, str, tuple, list, absent type, a 662-entry list, 'CDS', the "
    "absent 'five_prime_UTR', the quoted type alone and in a list, ('cds','%'), a set) x strand {None,+,-,.}): order_by over 157 "
    "options {none, each of 12 names (8 columns, attributes, extra, file_order, length) as string, as 1-tuple, every ordered pair} "
    "(thorough 307: plus every ordered triple and every ordered pair as a list over 6 names) x reverse (single column only). The result "
    "set is compared with a brute-force filter (result-set-differs; the query must not raise), the same call with positional arguments "
    "must return the same (same order for a single order column), an unfiltered unordered iteration must be in input order, ordered "
    "results must be monotone under SQLite's comparison (NULL first, ties in any order), and each returned feature's file_order "
    "attribute must match. Part 'counts' (1 shard per database, 13 executions): count_features_of_type for None and 8 types (two "
    "absent) against the model and against iteration; featuretypes() and seqids() listings; full scan order; counts asked while a "
    "listing is being consumed and two listings zipped. Non-trivial = the expected result has >= 2 features and an order or a filter is "
    "given; every counts execution. reverse is only named when True (ascending is the documented default)."
)
ASSUMPTIONS = [
    "ordering is SQLite's documented comparison for the column's storage class: integers numerically, text by code point (BINARY), NULL first; ties in any order",
    "without order_by only a full unfiltered iteration is required to be in input order",
]

NAMES = ["seqid", "source", "featuretype", "start", "end", "score", "strand", "frame", "attributes", "extra", "file_order", "length"]

ROWS = [
    # seqid, source, type, start, end, score, strand, frame, attrs, extras
    ("chr1", "a", "gene", "100", "200", "10", "+", ".", "ID=g1", []),
    ("Chr1", "B", "exon", "100", "150", "9", "+", "0", "ID=e1;Parent=g1", ["x"]),
    ("chr10", "a", "exon", "5", "5", "1e3", "-", "1", "ID=e2", []),
    ("chr2", "a", "mRNA", "5", "300", ".", "-", "2", "ID=m1;Name=zz", ["y", "z"]),
    ("chrX", "B", "gene", "50", "60", "0.5", ".", ".", "ID=g2", []),
    ("χ2", "a", "exon", "50", "55", "10", "+", ".", "ID=e3;Name=é", []),
    ("chr1", "c", "CDS", ".", ".", "9", ".", "0", "ID=c0", []),
    ("chr1", "a", "exon", "100", "200", "10", "-", ".", "ID=e4", ["x"]),
    ("chr2", "B", "gene", "1", "1000", ".", "+", ".", "ID=g3", []),
    ("Chr1", "a", "CDS", "120", "150", "2", "+", "1", "ID=c1;Parent=e1", []),
    ("chr10", "B", "mRNA", "5", "300", "1e3", "-", ".", "ID=m2", []),
    ("chrX", "a", "exon", "60", "60", "10", ".", "2", "ID=e5", ["a"]),
    ("chr1", "a", "gene", "100", "200", "10", "+", ".", "ID=g4", []),
    ("chr2", "c", "exon", "7", "9", "0.5", "+", "0", "ID=e6", []),
    ("chrX", "B", "CDS", "50", "52", "9", "-", "1", "ID=c2", []),
    ("chr1", "a", "exon", "2", "3", "10", "+", ".", "ID=e7;Name=a", ["b"]),
    # feature types that differ only by case, by an SQL wildcard position, or contain a quote
    ("chr2", "a", "cds", "8", "9", "1", "+", "0", "ID=c3", []),
    ("chr2", "a", "five-prime-UTR", "3", "4", ".", "+", ".", "ID=u1", []),
    ("chr2", "B", "5'UTR", "5", "6", ".", "-", ".", "ID=u2", []),
    # the placeholder '.' as a feature type: a value like any other
    ("chr2", "a", ".", "11", "12", ".", "+", ".", "ID=d1", []),
]


def rows_for(which):
    if which == "small":
        return ROWS
    out = list(ROWS)
    for i, r in enumerate(ROWS[:14]):
        r = list(r)
        r[8] = r[8].replace("ID=", "ID=x")
        r[3], r[4] = (str(int(r[3]) + (i % 3)), str(int(r[4]) + 7)) if r[3] != "." else (".", ".")
        r[0] = ROWS[(i + 3) % len(ROWS)][0]
        out.append(tuple(r))
    return out


TRIPLE_NAMES = ["seqid", "featuretype", "start", "end", "strand", "length"]


def order_options(tier="quick"):
    opts = [None] + [n for n in NAMES] + [(n,) for n in NAMES]
    opts += [(a, b) for a in NAMES for b in NAMES if a != b]
    if tier != "quick":
        opts += [(a, b, c) for a in TRIPLE_NAMES for b in TRIPLE_NAMES for c in TRIPLE_NAMES if len({a, b, c}) == 3]
        opts += [[a, b] for a in TRIPLE_NAMES for b in TRIPLE_NAMES if a != b]          # given as a list
    return opts


LONG_FT = ["t%03d" % i for i in range(300)] + ["exon"] + ["u%03d" % i for i in range(320)] + ["gene"] + ["v%03d" % i for i in range(40)]
FTS = [None, "exon", ("exon", "gene"), ["CDS", "mRNA", "exon"], "nosuchtype", LONG_FT,
       "CDS", "five_prime_UTR", "5'UTR", ["5'UTR", "exon"], ("cds", "%"), {"gene", "5'UTR"},
       ["exon", "gene", "exon"], ".", ("CDS", "CDS")]
STRANDS = [None, "+", "-", "."]


def bounds(tier):
    return dict(databases=["small"] if tier == "quick" else ["small", "large"], features=[len(ROWS)] + ([len(rows_for("large"))] if tier != "quick" else []),
                order_by_options=len(order_options(tier)), featuretypes=[repr(f)[:60] for f in FTS], strands=STRANDS)


def shards(tier):
    out = []
    for which in (["small"] if tier == "quick" else ["small", "large"]):
        for m in ("all_features", "features_of_type"):
            for fi in range(len(FTS)):
                for si in range(len(STRANDS)):
                    out.append((which, m, fi, si))
        out.append((which, "counts", None, None))
    return out


def get_db(ctx, which):
    key = ("c11", which)
    if key not in ctx.memo:
        d = os.path.join(ctx.tmpdir, "c11-%s-%d" % (which, os.getpid()))
        os.makedirs(d, exist_ok=True)
        rows = rows_for(which)
        lines = ["\t".join(list(r[:9]) + list(r[9])) for r in rows]
        path = dbutil.write_text(d, "in.gff", "\n".join(lines) + "\n")
        db = gffutils.create_db(path, os.path.join(d, "o.db"), verbose=False, force=True)
        model = []
        for i, r in enumerate(rows):
            st = None if r[3] == "." else int(r[3])
            en = None if r[4] == "." else int(r[4])
            c = dbutil.canon(db)["features"][i]
            model.append(dict(id=c[0], seqid=r[0], source=r[1], featuretype=r[2], start=st, end=en, score=r[5], strand=r[6], frame=r[7],
                              attributes=_raw(db, c[0], "attributes"), extra=_raw(db, c[0], "extra"), file_order=i + 1,
                              length=None if st is None else en - st))
        ctx.memo[key] = (db, model)
    return ctx.memo[key]


def _raw(db, fid, col):
    return db.conn.execute("SELECT %s FROM features WHERE id = ?" % col, (fid,)).fetchone()[0]


def sortkey(m, name):
    v = m[name]
    return (0, 0) if v is None else (1, v)


def body(ch, ctx):
    which, method, fi, si = ctx.shard
    db, model = get_db(ctx, which)
    if method == "counts":
        what = ch.choose("what", ["count:%s" % t for t in (None, "gene", "exon", "CDS", "cds", "five_prime_UTR", "5'UTR", "mRNA", "nosuchtype", ".")] + ["featuretypes", "seqids", "fullscan", "interleaved"])
        ctx.nontrivial()
        ctx.outcome((which, what))
        ctx.sample(lambda: dict(db=which, check=what))
        if what.startswith("count:"):
            t = what[6:]
            t = None if t == "None" else t
            n = db.count_features_of_type(t)
            exp = sum(1 for m in model if t is None or m["featuretype"] == t)
            it = len(list(db.features_of_type(t))) if t else len(list(db.all_features()))
            ctx.check(n == exp == it, "count-differs", dict(featuretype=t), count=n, expected=exp, iterated=it)
        elif what == "interleaved":
            # the usual summary loop: counts asked while the listing is still being consumed
            got = {ft: db.count_features_of_type(ft) for ft in db.featuretypes()}
            exp = {}
            for m in model:
                exp[m["featuretype"]] = exp.get(m["featuretype"], 0) + 1
            ctx.check(got == exp, "interleaved-listing-and-counts-differ", None, got=got, expected=exp)
            pairs = list(zip(db.featuretypes(), db.seqids()))
            ctx.check(len(pairs) == min(len(exp), len({m["seqid"] for m in model})), "interleaved-listings-differ", None, got=pairs)
        elif what == "featuretypes":
            got = list(db.featuretypes())
            ctx.check(sorted(got) == sorted({m["featuretype"] for m in model}), "featuretypes-differ", None, got=got)
        elif what == "seqids":
            got = list(db.seqids())
            ctx.check(sorted(got) == sorted({m["seqid"] for m in model}), "seqids-differ", None, got=got)
        else:
            got = [f.id for f in db.all_features()]
            ctx.check(got == [m["id"] for m in model], "full-iteration-not-in-input-order", None, got=got)
        return
    ft, strand = FTS[fi], STRANDS[si]
    ob = ch.choose("order_by", order_options(ctx.tier))
    single = ob is not None and (isinstance(ob, str) or len(ob) == 1)
    reverse = ch.flag("reverse") if single else False
    exp = [m for m in model
           if (ft is None or (m["featuretype"] == ft if isinstance(ft, str) else m["featuretype"] in ft))
           and (strand is None or m["strand"] == strand)]
    ctx.sample(lambda: dict(db=which, method=method, featuretype=ft, strand=strand, order_by=ob, reverse=reverse, n_expected=len(exp)))
    ctx.nontrivial(len(exp) >= 2 and (ob is not None or ft is not None or strand is not None))
    ctx.outcome((which, method, fi, si, repr(ob), reverse))
    kw = dict(strand=strand, order_by=ob, **(dict(reverse=True) if reverse else {}))        # ascending is the default
    sig = dict(method=method, order_by_form="none" if ob is None else ("string" if isinstance(ob, str) else "tuple%d" % len(ob)),
               reverse=reverse, length="length" in (ob if isinstance(ob, (tuple, list)) else (ob,)))
    try:
        if method == "all_features":
            got = list(db.all_features(featuretype=ft, **kw))
        else:
            got = list(db.features_of_type(ft, **kw))
    except Exception as e:
        ctx.fail("query-raised", dict(sig, exc=type(e).__name__), featuretype=ft, strand=strand, order_by=ob, message=str(e)[:200])
        return
    ids = [f.id for f in got]
    # the same call with positional arguments in the documented order
    try:
        if method == "all_features":
            pos = [f.id for f in db.all_features(None, strand, ft, ob, reverse)]
        else:
            pos = [f.id for f in db.features_of_type(ft, None, strand, ob, reverse)]
        same = pos == ids if (ob is not None and single) else sorted(pos) == sorted(ids)
        ctx.check(same, "positional-call-differs-from-keyword-call", sig, featuretype=ft, strand=strand, order_by=ob, keyword=ids[:10], positional=pos[:10])
    except Exception as e:
        ctx.fail("query-raised", dict(sig, exc=type(e).__name__, positional=True), featuretype=ft, strand=strand, order_by=ob, message=str(e)[:200])
    ctx.check(sorted(ids) == sorted(m["id"] for m in exp), "result-set-differs", sig, featuretype=ft, strand=strand, order_by=ob,
              got=ids, expected=[m["id"] for m in exp])
    if ob is None:
        if ft is None and strand is None:
            ctx.check(ids == [m["id"] for m in model], "full-iteration-not-in-input-order", sig, got=ids)
        return
    names = (ob,) if isinstance(ob, str) else ob
    byid = {m["id"]: m for m in model}
    keys = [tuple(sortkey(byid[i], n) for n in names) for i in ids if i in byid]
    if reverse:
        ok = all(keys[i] >= keys[i + 1] for i in range(len(keys) - 1))
    else:
        ok = all(keys[i] <= keys[i + 1] for i in range(len(keys) - 1))
    ctx.check(ok, "result-not-sorted", sig, featuretype=ft, strand=strand, order_by=ob, reverse=reverse, got=ids, keys=[repr(k) for k in keys][:12])
    # file_order carried by the features themselves
    ctx.check(all(f.file_order == byid[f.id]["file_order"] for f in got if f.id in byid), "file_order-attribute-differs", sig, got=ids)
