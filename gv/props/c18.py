"""C18 -- coordinate conventions of exports: length, sequence and BED12 (E1)."""
import itertools
import os

import gffutils
from gffutils import convert
import pyfaidx

from gv.model import dbutil

ID = "C18"
RULE = (
    "Part 'seq' (shards = record x start): every (record, start<=end, strand {+,-,.}, use_strand {True, False, the truthy non-bool 1}) "
    "over a two-record FASTA (12 bases, the middle four in lower case; 9 bases with IUPAC ambiguity codes) x FASTA given as pyfaidx object, as path, as a path that "
    "held another reference a moment ago, and as a path with a stale index file next to it; len(feature), sequence() (keyword and "
    "positional use_strand) against reference slicing / reverse complement, and sequence length = len. Part 'bed' (shards = blocks of 4 "
    "exon sets): every set of <= 3 pairwise disjoint exons (incl. none) over positions 1..6 (quick, 176 sets) / 1..8 (thorough, 709) x "
    "transcript span {hull, extended left, extended right} x strand {+,-} x CDS option (none, first, first+last, inner, first+last in "
    "descending file order) x name field {ID, Name} x argument {id, Feature} x thick (CDS) / thin (UTR) selection x always_return_list "
    "x coordinate offset {100, 0} (thorough: full product; quick: an 8-row pairwise-covering set of these five options); blocks are "
    "children of the transcript and (at two levels) of the gene; every other exon set uses block_featuretype 'noncoding_exon' with "
    "decoy children of type exon, 'Noncoding_Exon' and 'noncoding-exon'. bed12() is compared field by field (12 fields, "
    "chrom/start/end/name/score/strand/itemRgb/block count/sizes/starts, thick bounds), must raise ValueError exactly on a span "
    "mismatch with exons and no other exception; when the last exon has >= 3 bases an 'inner_block' child lies strictly inside it, and "
    "with hull span and thick mode bed12(block_featuretype=[block type, 'inner_block']) - nested blocks of two types, the last-starting "
    "one ending before the feature's end - must raise ValueError as well; bed12() of the gene must give the same line apart from the "
    "name; convert.to_bed12() (thick mode) is compared as well. Non-trivial = minus strand or interior interval (seq); >= 2 exons or a "
    "span mismatch or no exon (bed). use_strand is left out only when it is True (strand-aware is the documented default)."
)
ASSUMPTIONS = [
    "thickStart/thickEnd without thick features, and overlapping exons, are not demanded",
    "thin selection is checked per the docstring's coordinate rule as implemented for BED (thickStart = end of first thin, thickEnd = start-1 of last thin)",
    "pyfaidx is trusted for FASTA access",
    "with blocks of several types, 'the blocks span the feature' is judged on the block that starts last: it must reach the feature's end, whatever an earlier, longer block reaches",
    "any truthy use_strand value means strand-aware",
]

RECORDS = {"chrA": "ACGTtgcaAGCT", "chrB": "GRYKMCNBD"}        # chrA is soft-masked in the middle (case is content); chrB carries IUPAC ambiguity codes
COMP = {"A": "T", "C": "G", "G": "C", "T": "A", "N": "N", "R": "Y", "Y": "R", "K": "M", "M": "K", "B": "V", "V": "B",
        "D": "H", "H": "D", "S": "S", "W": "W"}
COMP.update({k.lower(): v.lower() for k, v in list(COMP.items())})


def exon_sets(npos):
    ivs = [(a, b) for a in range(1, npos + 1) for b in range(a, npos + 1)]
    out = [()]
    for k in (1, 2, 3):
        for combo in itertools.combinations(ivs, k):
            if all(combo[i][1] < combo[i + 1][0] for i in range(k - 1)):
                out.append(combo)
    return out


_C = {}


def sets_for(tier):
    return _C.setdefault(tier, exon_sets(6 if tier == "quick" else 8))


def bounds(tier):
    return dict(fasta_records={k: len(v) for k, v in RECORDS.items()}, exon_sets=len(sets_for(tier)), spans=["hull", "left+1", "right+1"],
                cds_options=5, strands=["+", "-", "."])


def shards(tier):
    out = [("seq", rec, s) for rec in RECORDS for s in range(1, len(RECORDS[rec]) + 1)]
    n = len(sets_for(tier))
    step = 4
    out += [("bed", i, min(i + step, n)) for i in range(0, n, step)]
    return out


def get_fasta(ctx):
    if "fa" not in ctx.memo:
        d = os.path.join(ctx.tmpdir, "c18-%d" % os.getpid())
        os.makedirs(d, exist_ok=True)
        p = dbutil.write_text(d, "ref.fa", "".join(">%s\n%s\n%s\n" % (k, v[:7], v[7:]) for k, v in RECORDS.items()))
        ctx.memo["fa"] = (p, pyfaidx.Fasta(p, as_raw=False))
    return ctx.memo["fa"]


def body_seq(ch, ctx):
    _, rec, s = ctx.shard
    e = ch.choose("end", range(s, len(RECORDS[rec]) + 1))
    strand = ch.choose("strand", "+-.")
    use_strand = ch.choose("use_strand", (True, False, 1))          # 1: truthy, not the bool True
    as_path = ch.choose("fasta", ("object", "path", "path_rewritten", "path_stale_index"))
    path, fa = get_fasta(ctx)
    if as_path == "path_rewritten":
        # the same path held another reference a moment ago (regenerated reference at a fixed location)
        d = ctx.fresh_dir()
        path = dbutil.write_text(d, "regen.fa", "".join(">%s\n%s\n" % (k, v[::-1]) for k, v in RECORDS.items()))
        gffutils.Feature(seqid=rec, start=1, end=2, strand="+").sequence(path)
        for n in os.listdir(d):
            os.unlink(os.path.join(d, n))
        path = dbutil.write_text(d, "regen.fa", "".join(">%s\n%s\n%s\n" % (k, v[:7], v[7:]) for k, v in RECORDS.items()))
    if as_path == "path_stale_index":
        # an index file left over from an older release of the same FASTA sits next to it
        d = ctx.fresh_dir()
        path = dbutil.write_text(d, "rel.fa", "".join(">%s\n%s\n" % (k, (v * 2)[3:3 + len(v)]) for k, v in RECORDS.items()))
        gffutils.Feature(seqid=rec, start=1, end=2, strand="+").sequence(path)           # writes rel.fa.fai
        dbutil.write_text(d, "rel.fa", "".join(">%s\n%s\n%s\n" % (k, v[:7], v[7:]) for k, v in RECORDS.items()))
        now = __import__("time").time()
        os.utime(path + ".fai", (now - 1000, now - 1000))
        os.utime(path, (now, now))
    as_path = as_path != "object"
    f = gffutils.Feature(seqid=rec, start=s, end=e, strand=strand)
    exp = RECORDS[rec][s - 1:e]
    if strand == "-" and use_strand:
        exp = "".join(COMP[c] for c in reversed(exp))
    ctx.sample(lambda: dict(record=rec, start=s, end=e, strand=strand, use_strand=use_strand, expected=exp))
    ctx.nontrivial(strand == "-" or (s > 1 and e < len(RECORDS[rec])))
    ctx.outcome((rec, strand, use_strand, e - s + 1))
    sig = dict(strand=strand, use_strand=use_strand)
    ctx.check(len(f) == e - s + 1, "len-differs", None, start=s, end=e, got=len(f))
    got = f.sequence(path if as_path else fa, **({} if use_strand is True else dict(use_strand=use_strand)))      # strand-aware is the default
    positional = f.sequence(path if as_path else fa, use_strand)          # the same call, second argument positional
    ctx.check(str(positional) == str(got), "sequence-positional-call-differs", sig, keyword=str(got), positional=str(positional))
    ctx.check(str(got) == exp, "sequence-differs", sig, record=rec, start=s, end=e, got=str(got), expected=exp)
    ctx.check(len(str(got)) == len(f), "sequence-length-differs-from-len", sig, start=s, end=e, got=str(got))


def body_bed(ch, ctx):
    _, i0, i1 = ctx.shard
    exons = ch.choose("exons", sets_for(ctx.tier)[i0:i1])
    span = ch.choose("span", ("hull", "left", "right"))
    strand = ch.choose("strand", "+-")
    cds_opt = ch.choose("cds", ("none", "first", "first_last", "inner", "first_last_desc"))
    if ctx.tier == "quick":
        # quick: a pairwise-covering set of the five two-valued options instead of their full product
        name_field, byid, mode, off, switch = ch.choose("options", [
            ("ID", "id", "thick", 100, True), ("Name", "feature", "thin", 100, True), ("ID", "feature", "thick", 0, True),
            ("Name", "id", "thick", 100, False), ("ID", "id", "thin", 0, False), ("Name", "feature", "thick", 0, False),
            ("ID", "feature", "thin", 100, False), ("Name", "id", "thin", 0, True)])
    else:
        name_field = ch.choose("name_field", ("ID", "Name"))
        byid = ch.choose("argument", ("id", "feature"))
        mode = ch.choose("mode", ("thick", "thin"))
        switch = ch.choose("always_return_list", (True, False))
        off = ch.choose("offset", (100, 0))           # with offset 0 the transcript can begin at coordinate 1
    if exons:
        s, e = exons[0][0] + off, exons[-1][1] + off
    else:
        s, e = 1 + off, 8 + off
    ts, te = s, e
    if span == "left":
        ts -= 1
    elif span == "right":
        te += 1
    cds = []
    if exons and cds_opt != "none":
        a, b = exons[0][0] + off, exons[0][1] + off
        if cds_opt == "first":
            cds = [(a, b)]
        elif cds_opt in ("first_last", "first_last_desc"):
            cds = [(a, b), (exons[-1][0] + off, exons[-1][1] + off)] if len(exons) > 1 else [(a, b)]
        else:
            cds = [(a + 1, b - 1)] if b - a >= 2 else [(a, b)]
    child_type = "CDS" if mode == "thick" else "UTR"
    # every other exon set uses blocks of type 'noncoding_exon' (asked for as a plain string) next to decoy 'exon' children
    stringform = (len(exons) + sum(a + b for a, b in exons)) % 2 == 1
    btype = "noncoding_exon" if stringform else "exon"
    # the blocks name both the transcript and its gene: children of g1 at level 1 and, through t1, at level 2
    lines = ["c7\ts\tgene\t%d\t%d\t.\t%s\t.\tID=g1" % (ts, te, strand), "c7\ts\tmRNA\t%d\t%d\t.\t%s\t.\tID=t1;Parent=g1" % (ts, te, strand)]
    for a, b in exons:
        lines.append("c7\ts\t%s\t%d\t%d\t.\t%s\t.\tParent=t1,g1" % (btype, a + off, b + off, strand))
    if stringform and exons:
        lines.append("c7\ts\texon\t%d\t%d\t.\t%s\t.\tParent=t1" % (exons[0][0] + off, exons[0][0] + off, strand))      # decoy
        # decoys whose type differs from the one asked for only by case / at the position of an SQL wildcard
        lines.append("c7\ts\tNoncoding_Exon\t%d\t%d\t.\t%s\t.\tParent=t1" % (exons[-1][1] + off, exons[-1][1] + off, strand))
        lines.append("c7\ts\tnoncoding-exon\t%d\t%d\t.\t%s\t.\tParent=t1" % (exons[0][0] + off, exons[-1][1] + off, strand))
    # a block of another type strictly inside the LAST exon (only asked for by the nested-blocks call below)
    nested = None
    if exons and exons[-1][1] - exons[-1][0] >= 2:
        nested = (exons[-1][0] + 1 + off, exons[-1][1] - 1 + off)
        lines.append("c7\ts\tinner_block\t%d\t%d\t.\t%s\t.\tParent=t1" % (nested[0], nested[1], strand))
    for a, b in (reversed(cds) if cds_opt == "first_last_desc" else cds):
        lines.append("c7\ts\t%s\t%d\t%d\t.\t%s\t.\tParent=t1" % (child_type, a, b, strand))
    path = dbutil.write_text(ctx.fresh_dir(), "t.gff", "\n".join(lines) + "\n")
    db = gffutils.create_db(path, ":memory:", verbose=False)
    arg = "t1" if byid == "id" else db["t1"]
    spans_ok = span == "hull"
    ctx.sample(lambda: dict(file=lines, argument=byid, mode=mode, name_field=name_field))
    ctx.nontrivial(len(exons) >= 2 or not spans_ok or not exons)
    ctx.outcome((len(exons), span, cds_opt, mode, byid, name_field))
    sig = dict(n_exons=len(exons), span=span, argument=byid, mode=mode, always_return_list=switch)
    kw = dict(name_field=name_field)
    if stringform:
        kw["block_featuretype"] = "noncoding_exon"
    if mode == "thin":
        kw.update(thick_featuretype=None, thin_featuretype=["UTR"])
    from gffutils import constants
    orig_switch = constants.always_return_list
    constants.always_return_list = switch
    try:
        got = db.bed12(arg, **kw)
    except ValueError as ex:
        ctx.check(not spans_ok and bool(exons), "bed12-raised-ValueError-although-blocks-span", sig, file=lines, message=str(ex)[:200])
        got = None
    except Exception as ex:
        ctx.fail("bed12-raised", dict(sig, exc=type(ex).__name__), file=lines, message=str(ex)[:200])
        got = None
    else:
        if exons and not spans_ok:
            ctx.fail("bed12-did-not-raise-on-span-mismatch", sig, file=lines, got=got)
            got = None
    finally:
        constants.always_return_list = orig_switch
    blocks = [(a + off, b + off) for a, b in exons] or [(ts, te)]
    if got is not None:
        fields = got.split("\t")
        if ctx.check(len(fields) == 12, "bed12-field-count", sig, got=got):
            exp = [("chrom", "c7"), ("chromStart", str(ts - 1)), ("chromEnd", str(te)), ("name", "t1" if name_field == "ID" else "."),
                   ("score", "0"), ("strand", strand), ("itemRgb", "0,0,0"), ("blockCount", str(len(blocks))),
                   ("blockSizes", ",".join(str(b - a + 1) for a, b in blocks)),
                   ("blockStarts", ",".join(str(a - 1 - (ts - 1)) for a, b in blocks))]
            idx = dict(chrom=0, chromStart=1, chromEnd=2, name=3, score=4, strand=5, itemRgb=8, blockCount=9, blockSizes=10, blockStarts=11)
            for name, val in exp:
                ctx.check(fields[idx[name]] == val, "bed12-field-differs", dict(sig, field=name), file=lines, got=fields[idx[name]], expected=val, line=got)
            if cds:
                if mode == "thick":
                    et = (str(cds[0][0] - 1), str(cds[-1][1]))
                else:
                    et = (str(cds[0][1]), str(cds[-1][0] - 1))
                ctx.check((fields[6], fields[7]) == et, "bed12-thick-bounds-differ", dict(sig, cds=cds_opt), file=lines,
                          got=[fields[6], fields[7]], expected=list(et))
    # the same structure asked through the gene: every block is related to it twice (two levels) and still counts once
    if got is not None and exons:
        constants.always_return_list = switch
        try:
            got_g = db.bed12("g1" if byid == "id" else db["g1"], **kw)
        except Exception as ex:
            got_g = "raised %s: %s" % (type(ex).__name__, str(ex)[:120])
        finally:
            constants.always_return_list = orig_switch
        fg, ft_ = got_g.split("\t"), got.split("\t")
        same = len(fg) == 12 and fg[:3] + fg[4:] == ft_[:3] + ft_[4:] and fg[3] == ("g1" if name_field == "ID" else ".")
        ctx.check(same, "bed12-field-differs", dict(sig, field="via-gene-related-at-two-levels"), file=lines, got=got_g, transcript_line=got)
    # blocks of two types, one nested in the other: the block that starts last stops before the feature's end, so the blocks
    # "do not span the feature" whatever an earlier, longer block reaches
    if nested is not None and mode == "thick" and spans_ok:
        try:
            line = db.bed12(arg, block_featuretype=[btype, "inner_block"], name_field=name_field)
            ctx.fail("bed12-did-not-raise-on-span-mismatch", dict(sig, nested_blocks=True), file=lines, got=line)
        except ValueError:
            pass
        except Exception as ex:
            ctx.fail("bed12-raised", dict(sig, exc=type(ex).__name__, nested_blocks=True), file=lines, message=str(ex)[:200])
    # the alternative converter
    if mode == "thick":
        try:
            line = convert.to_bed12(arg, db, name_field=name_field, **({"child_type": "noncoding_exon"} if stringform else {}))
        except Exception as ex:
            ctx.fail("to_bed12-raised", dict(sig, exc=type(ex).__name__), file=lines, message=str(ex)[:200])
            return
        fields = line.rstrip("\n").split("\t")
        eb = [(a + off, b + off) for a, b in exons]
        exp = ["c7", str(ts - 1), str(te), "t1" if name_field == "ID" else ".", None, strand, None, None, None, str(len(eb)),
               ",".join(str(b - a + 1) for a, b in eb), ",".join(str(a - ts) for a, b in eb)]
        ok = len(fields) == 12 and all(x is None or x == y for x, y in zip(exp, fields))
        ctx.check(ok, "to_bed12-differs", sig, file=lines, got=fields, expected=exp)


def body(ch, ctx):
    if ctx.shard[0] == "seq":
        body_seq(ch, ctx)
    else:
        body_bed(ch, ctx)
