"""C20 -- concurrent imports are independent and leave no temp files (E3: controlled scheduler over real processes)."""
import os
import shutil

import gffutils

from gv.engine.choice import EngineError
from gv.engine import sched
from gv.model import dbutil

ID = "C20"
RULE = (
    "Real forked processes under a controller that lets exactly one run between scheduling points (job start; in the shared temp "
    "directory: os.open incl. exclusive create, open, unlink/remove, rename, stat/lstat); all get the same temp-name sequence, forcing "
    "name collisions; shards fix the first two scheduling decisions. Group 'imports2': 15 (quick 12) two-process create_db job sets, "
    "ALL interleavings; job kinds: path, from_string, a duplicate-ID import that must fail, GTF with both or only transcript inference "
    "off (the latter also over a one-transcript GTF, where exactly one feature is left to infer), CDS-only GTF, force=True over an existing file, file:// URL, verbose='debug', and an import writing '<the forced job's "
    "output>.2' in the same directory; otherwise outputs are same-named files in separate directories; one GFF3 input's and one GTF input's gene id hold a "
    "blank. 'imports2torn': two imports of the identical string with the first write into a shared-directory file split in two, within "
    "2 (quick) / 3 (thorough) pre-emptions. 'imports3': 3 three-process sets within 1 / 2 pre-emptions. 'imports1': one solitary "
    "13220-line import (12000 second-level relations). 'hashseeds' (2 executions: a GFF3 import merging duplicates with "
    "force_merge_fields source, some filed under generated keys; a GTF import keyed by exon_id merging exons shared by transcripts), "
    "each run in fresh interpreters under 6 PYTHONHASHSEED values, must give one canonical database (attribute values as sets). "
    "Solitary reference runs are made in forked children before the controller imports anything (one that fails is a finding); the "
    "controller then runs a solitary import in the shared directory, which must leave nothing. Each output is compared canonically with "
    "a solitary run, every process must end as expected, and the shared directory must end empty. 'readers': 2 and 3 concurrent readers "
    "of one finished database with points also at connect, every statement, commit and row fetch, within 1 / 3 (2 readers) and 1 / 2 (3 "
    "readers) pre-emptions; every reader must succeed and see the full content. Non-trivial = the schedule has more context switches "
    "than processes minus one (imports1 and hashseeds always count)."
)
ASSUMPTIONS = [
    "for the pair importing the same text as a string, the first write into a file in the shared directory is split in two with a "
    "scheduling point in between (a concurrent reader may see a half-written file); all other writes are taken as atomic",
    "exactly one process runs between scheduling points (controller-serialised); atomicity of open(O_EXCL), unlink and of sqlite's file locking is trusted",
    "2 and 3 processes; more processes than cores and truly simultaneous system calls are not explored",
    "deviation bound = number of non-canonical picks (pre-emptions, plus picking a non-lowest process after an exit)",
    "separately started processes may differ in the interpreter's string-hash seed: six fixed seeds are enumerated (part 'hashseeds'); the order of merged attribute values is compared as sets there",
]

GFF_A = ["c1\ts\tgene\t1\t100\t.\t+\t.\tID=g1", "c1\ts\tmRNA\t1\t100\t.\t+\t.\tID=m1;Parent=g1",
         "c1\ts\texon\t1\t50\t.\t+\t.\tID=e1;Parent=m1", "c1\ts\texon\t60\t100\t.\t+\t.\tID=e2;Parent=m1"]
# (the gene's id holds a blank: it travels through the intermediate file as a grandparent)
GFF_B = ["c2\ts\tgene\t5\t90\t.\t-\t.\tID=h 1", "c2\ts\tmRNA\t5\t90\t.\t-\t.\tID=k1;Parent=h 1",
         "c2\ts\tCDS\t5\t50\t.\t-\t0\tID=d1;Parent=k1"]
GTF_A = ['c1\ts\texon\t1\t50\t.\t+\t.\tgene_id "G1"; transcript_id "T1";', 'c1\ts\texon\t60\t100\t.\t+\t.\tgene_id "G1"; transcript_id "T1";',
         'c1\ts\texon\t10\t20\t.\t+\t.\tgene_id "G1"; transcript_id "T2";']
GTF_B = ['c3\ts\texon\t7\t9\t.\t-\t.\tgene_id "G 9"; transcript_id "T9";', 'c3\ts\tCDS\t7\t8\t.\t-\t0\tgene_id "G 9"; transcript_id "T9";']      # one gene (its id holds a blank), one transcript

GTF_C = ['c4\ts\tCDS\t7\t9\t.\t+\t0\tgene_id "G4"; transcript_id "T4";', 'c4\ts\tstop_codon\t10\t12\t.\t+\t0\tgene_id "G4"; transcript_id "T4";']

def _big_gff():
    out = []
    for g in range(20):
        out.append("c1\ts\tgene\t%d\t%d\t.\t+\t.\tID=G%d" % (1 + 10000 * g, 9999 + 10000 * g, g))
        for m in range(60):
            out.append("c1\ts\tmRNA\t%d\t%d\t.\t+\t.\tID=G%dM%d;Parent=G%d" % (1 + 10000 * g, 9999 + 10000 * g, g, m, g))
            for e in range(10):
                st = 1 + 10000 * g + 900 * e
                out.append("c1\ts\texon\t%d\t%d\t.\t+\t.\tParent=G%dM%d" % (st, st + 100, g, m))
    return out


JOBS = {
    "gffBIG": ("path", _big_gff()),          # 12000 second-level relations: larger than any internal batch
    "gtfC": ("path", GTF_C),
    "gffA": ("path", GFF_A), "gffB": ("path", GFF_B), "gtfA": ("path", GTF_A), "gtfB": ("path", GTF_B),
    "gffA_str": ("string", GFF_A),
    "gffDUP": ("fails", GFF_A + [GFF_A[2]]),  # duplicate ID under the default merge_strategy='error': the import raises
    "gtfA_noinfer": ("noinfer", GTF_A),       # GTF with both inference switches off
    "gtfB_noinfer_t": ("noinfer_t", GTF_B),   # the same setting where exactly ONE feature is left to infer
    "gtfA_noinfer_t": ("noinfer_t", GTF_A),   # GTF with transcript inference off only (the setting for files that carry transcript lines)
    "gffA_force": ("force", GFF_A),          # output file already exists; force=True
    "gffB_url": ("url", GFF_B),              # input given as a file:// URL
    "gffA_debug": ("debug", GFF_A),          # verbose="debug": the log level must not change what is left behind
    "gffB_prefix": ("path", GFF_B),          # its output file is named like the forced job's output plus a suffix, in the same directory
}
EXPECT_FAIL = {"gffDUP"}
SETS2T = [("gffA_str", "gffA_str")]          # explored with torn first writes, within a pre-emption bound
SETS2 = [("gffDUP", "gffB"), ("gtfA_noinfer", "gffA"), ("gffA", "gffA"), ("gffA", "gffB"), ("gffA", "gtfA"), ("gtfA", "gtfB"), ("gtfA", "gtfA"), ("gffB", "gffA_str"), ("gtfC", "gffB"), ("gtfA", "gffA_force"), ("gffB_url", "gffA"),
         ("gffA_debug", "gtfA"), ("gffA_force", "gffB_prefix"), ("gtfA_noinfer_t", "gtfA_noinfer"), ("gtfB_noinfer_t", "gffB")]
SETS3 = [("gffA", "gtfA", "gffB"), ("gtfA", "gtfC", "gtfB"), ("gffA", "gffA", "gffA")]
READERS = [2, 3]


def dev_bound(tier):
    return dict(imports2torn=2 if tier == "quick" else 3, imports3=1 if tier == "quick" else 2, readers2=1 if tier == "quick" else 3, readers3=1 if tier == "quick" else 2)


def bounds(tier):
    return dict(import_sets_2=[list(s) for s in SETS2], import_sets_3=[list(s) for s in SETS3], reader_counts=READERS,
                preemption_bounds=dev_bound(tier), two_process_imports="all interleavings (no bound)")


def make_import(kind, lines, outdb, indir, idx):
    text = "\n".join(lines) + "\n"
    if kind in ("fails", "noinfer", "noinfer_t"):
        path = dbutil.write_text(indir, "in%d.txt" % idx, text)
        kw = dict(disable_infer_genes=True, disable_infer_transcripts=True) if kind == "noinfer" else (
            dict(disable_infer_transcripts=True) if kind == "noinfer_t" else {})

        def fn():
            db = gffutils.create_db(path, outdb, verbose=False, **kw)
            n = db.count_features_of_type()
            db.conn.close()
            return n
    elif kind in ("force", "url"):
        path = dbutil.write_text(indir, "in%d.txt" % idx, text)
        if kind == "force":
            old = gffutils.create_db(dbutil.write_text(indir, "old%d.txt" % idx, "\n".join(GFF_B) + "\n"), outdb, verbose=False)
            old.conn.close()
        data = path if kind == "force" else "file://" + path

        def fn():
            db = gffutils.create_db(data, outdb, verbose=False, force=(kind == "force"))
            n = db.count_features_of_type()
            db.conn.close()
            return n
    elif kind in ("path", "debug"):
        path = dbutil.write_text(indir, "in%d.txt" % idx, text)

        def fn():
            if kind == "debug":
                import logging
                logging.disable(logging.CRITICAL)          # the messages themselves are of no interest
            db = gffutils.create_db(path, outdb, verbose="debug" if kind == "debug" else False)
            n = db.count_features_of_type()
            db.conn.close()
            return n
    else:
        def fn():
            db = gffutils.create_db(text, outdb, from_string=True, verbose=False)
            n = db.count_features_of_type()
            db.conn.close()
            return n
    return fn


def reference(ctx, job):
    key = ("ref", job)
    if key not in ctx.memo:
        d = os.path.join(ctx.tmpdir, "c20-ref-%s-%d" % (job, os.getpid()))
        os.makedirs(d, exist_ok=True)
        kind, lines = JOBS[job]
        out = os.path.join(d, "ref.db")
        if os.path.exists(out):
            os.unlink(out)
        if job in EXPECT_FAIL:
            ctx.memo[key] = None
            return None
        # the solitary run happens in a process of its own: whatever the library remembers of an import (names, caches) must
        # not be carried into the controlling process, whose first import is the warm-up inside the shared directory
        pid = os.fork()
        if pid == 0:
            code = 0
            try:
                make_import("path" if kind in ("force", "url", "debug") else kind, lines, out, d, 0)()
            except BaseException:
                code = 1
            finally:
                os._exit(code)
        _, status = os.waitpid(pid, 0)
        if status != 0:
            ctx.memo[key] = "FAILED"          # an ordinary import, alone in its process, raised: reported by the caller
            return ctx.memo[key]
        ctx.memo[key] = dbutil.canon(out)
    return ctx.memo[key]


def run_imports(ch, ctx, jobs):
    wd = ctx.fresh_dir()
    shared = os.path.join(wd, "sharedtmp")
    indir = os.path.join(wd, "in")
    outdir = os.path.join(wd, "out")
    for d in (shared, indir, outdir):
        os.makedirs(d)
    if "all_refs" not in ctx.memo:
        # all solitary runs are made first, each in a child forked while this process has not imported anything yet
        for j in sorted(JOBS):
            reference(ctx, j)
        ctx.memo["all_refs"] = True
    refs = [reference(ctx, j) for j in jobs]
    if any(r == "FAILED" for r in refs):
        ctx.fail("solitary-import-failed", dict(jobs="+".join(j for j, r in zip(jobs, refs) if r == "FAILED")),
                 note="a plain import, alone in a fresh process, raised; nothing can be compared with it")
        return
    # the controlling process itself ran an import with this very temp directory before starting the workers
    import tempfile
    saved = tempfile.tempdir
    tempfile.tempdir = shared
    try:
        os.makedirs(os.path.join(outdir, "warm"))
        make_import("path", GFF_B, os.path.join(outdir, "warm", "annotation.db"), indir, 99)()
    except Exception as e:
        ctx.fail("import-in-the-controlling-process-failed", dict(exc=type(e).__name__), message=str(e)[:300], jobs=list(jobs))
        return
    finally:
        tempfile.tempdir = saved
    pre = sorted(os.listdir(shared))
    fns = []
    outs = []
    for i, j in enumerate(jobs):
        # separate output files -- in separate directories, with the same file name
        os.makedirs(os.path.join(outdir, "job%d" % i))
        out = os.path.join(outdir, "job%d" % i, "annotation.db")
        if j.endswith("_prefix"):
            out = outs[[k for k, x in enumerate(jobs) if x.endswith("_force")][0]] + ".2"      # '<the forced job's output>.2'
        outs.append(out)
        fns.append(make_import(JOBS[j][0], JOBS[j][1], out, indir, i))
    # two imports of the SAME text given as a string: also explore torn first writes into the shared directory
    torn = tuple(jobs) == ("gffA_str", "gffA_str")
    children, schedule, stats = sched.run_schedule(ch, fns, shared, torn_writes=torn)
    sig = dict(jobs="+".join(jobs))
    ctx.check(not pre, "temp-files-left-behind", dict(sig, only_from_string_copies=False, by="solitary warm-up import"), left=pre)
    interleaved = stats["switches"] > len(jobs) - 1 or len(jobs) == 1
    collided = any(op == "os.open+excl" and sum(1 for c in children for o in c.trace if o == (op, arg)) > 1
                   for c in children for (op, arg) in c.trace)
    ctx.nontrivial(interleaved)
    ctx.count("name_collisions", 1 if collided else 0)
    ctx.count("interleaved", 1 if interleaved else 0)
    ctx.outcome((tuple(jobs), tuple(stats["points"]), collided))
    ctx.sample(lambda: dict(jobs=list(jobs), schedule=[list(s) for s in schedule], stats=stats))
    compact = "".join(str(s[0]) for s in schedule)
    for c, j, out, ref in zip(children, jobs, outs, refs):
        if j in EXPECT_FAIL:
            ctx.check(c.exit and not c.exit.get("ok"), "failing-import-did-not-fail", dict(sig, job=j), schedule=compact)
            continue
        if not ctx.check(c.exit and c.exit.get("ok"), "import-process-failed", dict(sig, job=j),
                         schedule=compact, ops=[list(s) for s in schedule], error=(c.exit or {}).get("err"), tb=(c.exit or {}).get("tb")):
            continue
        if not ctx.check(os.path.exists(out), "output-database-missing", dict(sig, job=j), schedule=compact, ops=[list(s) for s in schedule]):
            continue
        got = dbutil.canon(out)
        bad = [k for k in ref if ref[k] != got[k]]
        ctx.check(not bad, "database-differs-from-solitary-run", dict(sig, job=j, tables=",".join(bad)), schedule=compact,
                  ops=[list(s) for s in schedule], got_ids=[r[0] for r in got["features"]], expected_ids=[r[0] for r in ref["features"]],
                  got_rel=got["relations"][:8], expected_rel=ref["relations"][:8])
    left = sorted(os.listdir(shared))
    from_string = any(JOBS[j][0] == "string" for j in jobs)
    string_copies = [n for n in left if not n.endswith(".gffutils")]
    ctx.check(not left, "temp-files-left-behind",
              dict(sig, only_from_string_copies=bool(left) and from_string and len(string_copies) == len(left)), schedule=compact, left=left)


def make_reader(dbpath):
    def fn():
        db = gffutils.FeatureDB(dbpath)
        one = db["g1"].id
        ids = [f.id for f in db.all_features()]
        kids = sorted(f.id for f in db.children("g1"))
        db.conn.close()
        return [one, ids, kids]
    return fn


def run_readers(ch, ctx, n):
    key = ("readerdb",)
    if key not in ctx.memo:
        d = os.path.join(ctx.tmpdir, "c20-rd-%d" % os.getpid())
        os.makedirs(d, exist_ok=True)
        p = os.path.join(d, "r.db")
        make_import("path", GFF_A, p, d, 0)()
        ctx.memo[key] = (p, make_reader(p)())
    dbpath, ref = ctx.memo[key]
    wd = ctx.fresh_dir()
    shared = os.path.join(wd, "sharedtmp")
    os.makedirs(shared)
    children, schedule, stats = sched.run_schedule(ch, [make_reader(dbpath) for _ in range(n)], shared, sqlite_points=True)
    sig = dict(readers=n)
    ctx.nontrivial(stats["switches"] > n - 1)
    ctx.count("interleaved", 1 if stats["switches"] > n - 1 else 0)
    ctx.outcome(("readers", n, tuple(stats["points"])))
    ctx.sample(lambda: dict(readers=n, schedule="".join(str(s[0]) for s in schedule), stats=stats))
    compact = "".join(str(s[0]) for s in schedule)
    for c in children:
        if ctx.check(c.exit and c.exit.get("ok"), "reader-process-failed", sig, schedule=compact, error=(c.exit or {}).get("err")):
            ctx.check(c.exit["res"] == ref, "reader-saw-partial-content", sig, schedule=compact, got=c.exit["res"], expected=ref)
    ctx.check(not os.listdir(shared), "temp-files-left-behind", dict(sig, only_from_string_copies=False), left=os.listdir(shared))


def shards(tier):
    # the shard fixes the first two scheduling decisions (parallelism across workers)
    sets2 = [x for x in SETS2 if tier != "quick" or x not in (("gtfA", "gtfA"), ("gffA", "gffB"), ("gtfA_noinfer", "gffA"))]     # quick drops three pairs whose job kinds also occur in other pairs
    out = [("imports2", s, (a, b)) for s in sets2 for a in (0, 1) for b in (0, 1)]
    out += [("imports2torn", s, (a, b)) for s in SETS2T for a in (0, 1) for b in (0, 1)]
    out += [("imports3", s, (a, b)) for s in SETS3 for a in (0, 1, 2) for b in (0, 1, 2)]
    out += [("readers", n, (a, b)) for n in READERS for a in range(n) for b in range(n)]
    out.append(("imports1", ("gffBIG",), ()))
    out.append(("hashseeds", ("gffMERGE",), ()))
    return out


class SkipShard(Exception):
    pass


class Fixed(object):
    """Chooser wrapper: the first len(prefix) decisions are fixed by the shard."""

    def __init__(self, ch, prefix):
        self.ch, self.prefix, self.i = ch, tuple(prefix), 0

    def choose(self, label, options):
        if self.i < len(self.prefix):
            k = self.prefix[self.i]
            self.i += 1
            if k >= len(options):
                raise SkipShard()         # this combination of first moves does not exist
            return options[k]
        return self.ch.choose(label, options)


GFF_MERGE = ["c1\tsrc_b\tgene\t1\t100\t.\t+\t.\tID=g1;Note=n2", "c1\tsrc_a\tgene\t1\t100\t.\t+\t.\tID=g1;Note=n1",
             "c1\tsrc_c\tgene\t1\t100\t.\t+\t.\tID=g1;Note=n3,n1", "c1\tsrc_a\tmRNA\t1\t100\t.\t+\t.\tID=m1;Parent=g1",
             # a key whose second line has other coordinates (filed as g2_1) and whose third repeats the second: merged into g2_1
             "c1\ts\tgene\t1\t100\t.\t+\t.\tID=g2;Note=a", "c1\ts\tgene\t5\t100\t.\t+\t.\tID=g2;Note=b",
             "c1\ts\tgene\t5\t100\t.\t+\t.\tID=g2;Note=c", "c1\ts\tgene\t7\t100\t.\t+\t.\tID=g2;Note=d",
             "c1\ts\tgene\t7\t100\t.\t+\t.\tID=g2;Note=e", "c1\ts\tgene\t5\t100\t.\t+\t.\tID=g2;Note=f"]
GTF_MERGE = ['c1\ts\texon\t10\t20\t.\t+\t.\tgene_id "G"; transcript_id "t1"; exon_id "E1";',
             'c1\ts\texon\t10\t20\t.\t+\t.\tgene_id "G"; transcript_id "t2"; exon_id "E1";',
             'c1\ts\texon\t10\t20\t.\t+\t.\tgene_id "G"; transcript_id "t3"; exon_id "E1";',
             'c1\ts\texon\t30\t40\t.\t+\t.\tgene_id "G"; transcript_id "t2"; exon_id "E2";',
             'c1\ts\texon\t30\t40\t.\t+\t.\tgene_id "G"; transcript_id "t3"; exon_id "E2";']
_DRIVER = """import sys
sys.path.insert(0, sys.argv[1])
import gffutils
kw = dict(force_merge_fields=["source"]) if sys.argv[4] == "gff" else dict(id_spec={"exon": "exon_id", "gene": "gene_id", "transcript": "transcript_id"})
db = gffutils.create_db(sys.argv[2], sys.argv[3], merge_strategy="merge", verbose=False, **kw)
db.conn.close()
"""


def run_hashseeds(ch, ctx):
    """Processes that are started separately do not share the interpreter's string-hash seed (an environment answer the
    scheduler does not own): the same import is made in fresh interpreters under every seed of a small set and must give one
    database. The job merges three duplicates with a force-merged column, i.e. it builds sets of strings."""
    import subprocess
    import sys
    fmt = ch.choose("format", ("gff", "gtf"))
    wd = ctx.fresh_dir()
    src = dbutil.write_text(wd, "merge.%s" % fmt, "\n".join(GFF_MERGE if fmt == "gff" else GTF_MERGE) + "\n")
    drv = dbutil.write_text(wd, "driver.py", _DRIVER)
    repo = os.path.dirname(os.path.dirname(os.path.abspath(gffutils.__file__)))
    seeds = ("0", "1", "2", "3", "17", "4711")
    got = {}
    for s in seeds:
        out = os.path.join(wd, "h%s.db" % s)
        r = subprocess.run([sys.executable, drv, repo, src, out, fmt], env=dict(os.environ, PYTHONHASHSEED=s), capture_output=True, text=True, timeout=300)
        if r.returncode != 0:
            ctx.fail("import-process-failed", dict(jobs="gffMERGE", hash_seed=True), seed=s, stderr=r.stderr[-400:])
            return
        got[s] = dbutil.canon(out, attr_sets=True)          # the order of merged attribute values is nobody's promise (C05 compares them as sets)
    ctx.nontrivial()
    ctx.outcome(("hashseeds", fmt, len(seeds)))
    ctx.sample(lambda: dict(job="gffMERGE", hash_seeds=list(seeds), stored=[r_[:3] for r_ in got["0"]["features"]]))
    ref = got[seeds[0]]
    for s in seeds[1:]:
        bad = [k for k in ref if ref[k] != got[s][k]]
        ctx.check(not bad, "database-differs-between-interpreter-hash-seeds", dict(tables=",".join(bad), format=fmt), seeds=[seeds[0], s],
                  a=[r_[:3] for r_ in ref["features"]], b=[r_[:3] for r_ in got[s]["features"]])


def body(ch, ctx):
    kind, what, prefix = ctx.shard
    if kind == "hashseeds":
        return run_hashseeds(ch, ctx)
    fch = Fixed(ch, prefix)
    try:
        if kind.startswith("imports"):
            run_imports(fch, ctx, what)
        else:
            run_readers(fch, ctx, what)
    except SkipShard:
        ctx.outcome("no-such-first-moves")


def groups_of(tier):
    b = dev_bound(tier)
    allsh = shards(tier)
    return [
        ("imports2", [s for s in allsh if s[0] in ("imports2", "imports1", "hashseeds")], None),
        ("imports2torn", [s for s in allsh if s[0] == "imports2torn"], b["imports2torn"]),
        ("imports3", [s for s in allsh if s[0] == "imports3"], b["imports3"]),
        ("readers2", [s for s in allsh if s[0] == "readers" and s[1] == 2], b["readers2"]),
        ("readers3", [s for s in allsh if s[0] == "readers" and s[1] == 3], b["readers3"]),
    ]


def history_context(v, tier):
    """Shard list and deviation bound of the group a recorded violation came from (for order-dependent replays)."""
    for name, shs, bound in groups_of(tier):
        if name == v.get("group"):
            return shs, bound
    raise EngineError("replay file names no exploration group")


def run(tier, seed):
    """Five explorations with different deviation bounds, merged into one report."""
    import time
    from gv.engine import pool, report

    t0 = time.time()
    groups = groups_of(tier)
    from gv.engine import choice

    total = choice.ShardResult()
    per = {}
    for name, shs, bound in groups:
        tg = time.time()
        r = pool.explore(body, shs, tier, seed, max_dev=bound, sample_every=211)
        per[name] = dict(wall_s=round(time.time() - tg, 1), executions=r.executions, states=r.nodes, deviation_bound=bound, pruned_by_bound=r.pruned_by_bound,
                         interleaved=r.counters.get("interleaved", 0), name_collisions=r.counters.get("name_collisions", 0),
                         max_depth=r.maxdepth)
        for _k, (_n, _vs) in r.violations.items():
            for _v in _vs:
                _v["group"] = name
        total.merge(r)
        total.nodes += 1
        total.edges += len(shs)
    import json
    import random

    samples = list(total.samples)
    random.Random(seed).shuffle(samples)

    def confirm(v):
        if pool.replay_isolated(body, v, tier, seed):
            return True
        # not reproducible as a single execution: replay what the reporting worker had explored before, in a fresh process
        if v.get("shard_index") is not None and v.get("group"):
            shs, bound = history_context(v, tier)
            if pool.replay_with_history(body, shs, v, tier, seed, bound):
                v["needs_history"] = True
                v["detail"] = dict(v.get("detail") or {}, order_dependent=(
                    "does not reproduce as a single execution; reproduces when the %d shard(s) explored earlier by the same "
                    "worker process are executed first (state kept between independent imports)" % len(v.get("worker_history") or [])))
                return True
        return False

    vac = []
    if per["imports2"]["interleaved"] == 0 or per["imports2"]["name_collisions"] == 0:
        vac.append("no interleaved / colliding 2-process import schedule")
    rc = report.conclude(
        ID, tier, seed, states=total.nodes, transitions=total.edges, executions=total.executions, nontrivial=total.nontrivial,
        outcomes=len(total.outcomes), samples=samples, rule=RULE, assumptions=ASSUMPTIONS, bounds=bounds(tier),
        exhaustive=False, wall=time.time() - t0, violations=total.violations, replay_confirm=confirm,
        extra=dict(per_group=per, exhaustive_note="2-process imports: every interleaving; other groups: every schedule within the stated deviation bound",
                   two_process_imports_exhaustive=True),
        caps=["deviation bound (see per_group)"])
    if vac and rc == 0:
        print("ENGINE-ERROR: vacuous exploration: %s" % "; ".join(vac))
        return 2
    return rc
