"""C06 -- region and limit queries return exactly the overlapping/contained features (E1, memoised databases)."""
import os

import gffutils
from gffutils.feature import Feature

from gv.model import dbutil

ID = "C06"
RULE = (
    "Four memoised file databases: A holds one feature on seqid c1 for every pair start<=end of the bin-boundary coordinate set (20 "
    "coordinates quick / 34 thorough: 1, 2, 5, 2^k+d for k in {17,20,23,26} and 2^29+d with |d|<=1 quick / <=2 thorough, plus a few "
    "multiples; 215 / 600 features incl. 5 on seqid c2; strands cycle +,-,.; types gene/exon; all are children of one root R and "
    "parents of one leaf L that also names R (related at levels 1 and 2)); B every interval over positions 1..6 on a seqid containing . "
    "- | _; T = A's features written at a placeholder position and moved by a create_db transform; G = B's intervals imported by the "
    "GTF importer (inference off). Shards: A and B x 13 call forms x (for A) the query start; T x forms {kwargs, all_features, "
    "children} x query start; G x the 10 forms other than children/parents/interleaved. Per shard every query end >= start x "
    "completely_within x strand {None,'+'} (B, G also '.') x featuretype {None,'exon',('exon','gene')}. Call forms: region by kwargs, "
    "tuple, string (the strand written into it, 'seqid:start-end:strand', when given with completely_within; for the widest interval also the string naming the sequence only), Feature (also one moved "
    "to the interval after construction), seqid omitted, start only, end only, limit= of all_features (tuple and string), "
    "features_of_type, children, parents (limit as tuple or string), and two region() results consumed interleaved. Each answer is "
    "compared with a brute-force scan (region(Feature) accepted under both strand readings), must contain no feature twice (R and L "
    "included); for region kwargs, all_features and features_of_type the fully positional call must equal the keyword call; one-sided "
    "forms are checked with must-return / may-return bounds; interleaved results must equal the separate ones. Non-trivial = the "
    "expected answer (one-sided: the must-return set) is neither empty nor everything. In the keyword form completely_within is only "
    "named when True (overlap is the documented default)."
)
ASSUMPTIONS = [
    "for region(Feature) the strand is accepted under both readings (ignored per the docstring, or taken from the feature per the code)",
    "one-sided queries are checked with the statement's inclusion bounds (must-return / may-return), not an exact set",
]

P29 = 2 ** 29


def coords(tier):
    s = {1, 2, 5}
    w = (-1, 0, 1) if tier == "quick" else (-2, -1, 0, 1, 2)
    for k in (17, 20, 23, 26):
        for d in w:
            s.add(2 ** k + d)
    s.update((2 * 2 ** 17, 2 * 2 ** 17 + 1))
    if tier != "quick":
        s.update((3 * 2 ** 17, 2 * 2 ** 20, 2 * 2 ** 20 + 1, 3 * 2 ** 23))
    for d in w:
        s.add(P29 + d)
    return sorted(s)


def bounds(tier):
    c = coords(tier)
    return dict(coordinates=c, features_A=len(c) * (len(c) + 1) // 2, positions_B=6,
                forms=FORMS, strands=[None, "+", ". (databases B and G)"], databases=["A", "B (hostile seqid)", "T (transform)", "G (GTF importer)"], featuretypes=[None, "exon", ["exon", "gene"]])


FORMS = ["kwargs", "tuple", "string", "Feature", "noseqid", "start_only", "end_only",
         "all_features", "all_features_str", "features_of_type", "children", "parents", "interleaved"]


# first / second sequence name per database; B and G use names with the characters real assemblies have ('.', '-', '|', '_')
SEQS = {"A": ("c1", "c2"), "T": ("c1", "c2"), "B": ("NC_000913.3-x|y", "c2"), "G": ("scaffold-12.1", "c2")}


def build(kind, tier, wd):
    """-> (db, list of feature dicts)"""
    if kind == "G":
        return build_gtf(wd)
    S1, S2 = SEQS[kind]
    if kind in ("A", "T"):
        cs = coords(tier)
    else:
        cs = list(range(1, 7))
    feats = []
    i = 0
    for a in cs:
        for b in cs:
            if a <= b:
                feats.append(dict(id="f%d" % i, seqid=S1, start=a, end=b, strand="+-."[i % 3], ft=("gene", "exon")[i % 2]))
                i += 1
    for j, (a, b) in enumerate([(cs[0], cs[0]), (cs[0], cs[-1]), (cs[1], cs[2]), (cs[2], cs[-2]), (cs[-1], cs[-1])]):
        feats.append(dict(id="g%d" % j, seqid=S2, start=a, end=b, strand="+-."[j % 3], ft=("gene", "exon")[j % 2]))
    lines = ["%s\ts\troot\t1\t%d\t.\t+\t.\tID=R" % (S1, cs[-1])]
    for f in feats:
        if kind == "T":
            # database T: every feature is parsed at a placeholder position and moved to its real
            # coordinates by a transform, so the stored bin must follow the coordinates at storage time
            lines.append("%s\ts\t%s\t1\t1\t.\t%s\t.\tID=%s;Parent=R;rs=%d;re=%d" % (f["seqid"], f["ft"], f["strand"], f["id"], f["start"], f["end"]))
        else:
            lines.append("%s\ts\t%s\t%d\t%d\t.\t%s\t.\tID=%s;Parent=R" % (f["seqid"], f["ft"], f["start"], f["end"], f["strand"], f["id"]))
    # the leaf names every feature AND the root as parent: it is related to the root at level 1 and (through any feature) at level 2
    lines.append("%s\ts\tleaf\t1\t1\t.\t+\t.\tID=L;Parent=R,%s" % (S1, ",".join(f["id"] for f in feats)))
    path = dbutil.write_text(wd, "in%s.gff" % kind, "\n".join(lines) + "\n")

    def move(f):
        if "rs" in f.attributes:
            f.start, f.end = int(f.attributes["rs"][0]), int(f.attributes["re"][0])
        return f

    kw = dict(transform=move) if kind == "T" else {}
    db = gffutils.create_db(path, os.path.join(wd, "db%s.sqlite" % kind), verbose=False, force=True, **kw)
    return db, feats, cs


def build_gtf(wd):
    """Database G: the intervals of B written as GTF and imported by the GTF importer (keys from an ID attribute, no inference)."""
    S1, S2 = SEQS["G"]
    cs = list(range(1, 7))
    feats, i = [], 0
    for a in cs:
        for b in cs:
            if a <= b:
                feats.append(dict(id="f%d" % i, seqid=S1, start=a, end=b, strand="+-."[i % 3], ft=("gene", "exon")[i % 2]))
                i += 1
    for j, (a, b) in enumerate([(cs[0], cs[0]), (cs[0], cs[-1]), (cs[1], cs[2]), (cs[2], cs[-2]), (cs[-1], cs[-1])]):
        feats.append(dict(id="g%d" % j, seqid=S2, start=a, end=b, strand="+-."[j % 3], ft=("gene", "exon")[j % 2]))
    lines = ['%s\ts\t%s\t%d\t%d\t.\t%s\t.\tgene_id "G"; transcript_id "T"; ID "%s";' % (f["seqid"], f["ft"], f["start"], f["end"], f["strand"], f["id"])
             for f in feats]
    path = dbutil.write_text(wd, "inG.gtf", "\n".join(lines) + "\n")
    db = gffutils.create_db(path, os.path.join(wd, "dbG.sqlite"), verbose=False, force=True, id_spec="ID",
                            disable_infer_genes=True, disable_infer_transcripts=True)
    assert db.dialect["fmt"] == "gtf"
    return db, feats, cs


def shards(tier):
    out = []
    n = len(coords(tier))
    for form in FORMS:
        for i in range(n):
            out.append(("A", form, i))
        out.append(("B", form, None))
    for form in ("kwargs", "all_features", "children"):
        for i in range(n):
            out.append(("T", form, i))
    for form in ("kwargs", "tuple", "string", "Feature", "noseqid", "start_only", "end_only", "all_features", "all_features_str", "features_of_type"):
        out.append(("G", form, None))
    return out


def brute(feats, seqid, s, e, cw, strand, ft):
    out = []
    for f in feats:
        if seqid is not None and f["seqid"] != seqid:
            continue
        if strand is not None and f["strand"] != strand:
            continue
        if ft is not None and not (f["ft"] == ft if isinstance(ft, str) else f["ft"] in ft):
            continue
        if cw:
            ok = s <= f["start"] and f["end"] <= e
        else:
            ok = f["start"] <= e and f["end"] >= s
        if ok:
            out.append(f["id"])
    return sorted(out)


def body(ch, ctx):
    kind, form, i0 = ctx.shard
    key = ("db", kind, ctx.tier)
    if key not in ctx.memo:
        d = os.path.join(ctx.tmpdir, "c06-%s-%d" % (kind, os.getpid()))
        os.makedirs(d, exist_ok=True)
        ctx.memo[key] = build(kind, ctx.tier, d)
    db, feats, cs = ctx.memo[key]
    if kind in ("A", "T"):
        s = cs[i0]
    else:
        s = ch.choose("start", cs)
    e = ch.choose("end", [c for c in cs if c >= s])
    cw = ch.flag("completely_within")
    strand = ch.choose("strand", (None, "+") if kind in ("A", "T") else (None, "+", "."))
    S1, S2 = SEQS[kind]
    ft = ch.choose("featuretype", (None, "exon", ("exon", "gene")))
    sig = dict(form=form, completely_within=cw, end_at_or_beyond_2_29=e >= P29, start_at_or_beyond_2_29=s >= P29)
    lim_t, lim_s = (S1, s, e), "%s:%d-%d" % (S1, s, e)
    exact = True
    must = may = None
    if form == "kwargs":
        got = db.region(seqid=S1, start=s, end=e, strand=strand, featuretype=ft, **(dict(completely_within=True) if cw else {}))   # overlap is the default
        exp = brute(feats, S1, s, e, cw, strand, ft)
        # the same call with positional arguments in the documented order (region, seqid, start, end, strand, featuretype,
        # completely_within)
        pos = sorted(f.id for f in db.region(None, S1, s, e, strand, ft, cw))
        got = list(got)
        ctx.check(pos == sorted(f.id for f in got), "positional-call-differs-from-keyword-call", dict(sig, method="region"), start=s, end=e,
                  keyword=sorted(f.id for f in got)[:8], positional=pos[:8])
    elif form == "tuple":
        got = db.region(region=lim_t, completely_within=cw, strand=strand, featuretype=ft)
        exp = brute(feats, S1, s, e, cw, strand, ft)
    elif form == "string":
        if s == cs[0] and e == cs[-1] and not cw:
            # the string may name the sequence only: everything on it (with the strand / featuretype restrictions)
            whole = sorted(f.id for f in db.region(region=S1, strand=strand, featuretype=ft) if f.id not in ("R", "L"))
            want_whole = brute(feats, S1, -10 ** 12, 10 ** 12, False, strand, ft)
            ctx.check(whole == want_whole, "query-result-differs", dict(sig, form="string-seqid-only", missing=bool(set(want_whole) - set(whole)),
                                                                        extra=bool(set(whole) - set(want_whole))),
                      region=S1, n_expected=len(want_whole), n_got=len(whole))
        if strand is not None and cw:
            # the strand written into the string itself: 'seqid:start-end:strand'
            got = db.region(region="%s:%s" % (lim_s, strand), completely_within=cw, featuretype=ft)
        else:
            got = db.region(region=lim_s, completely_within=cw, strand=strand, featuretype=ft)
        exp = brute(feats, S1, s, e, cw, strand, ft)
    elif form == "Feature":
        qs = "." if strand == "." else "-"
        if ch.flag("query_feature_moved_after_construction"):
            q = Feature(seqid=S1, start=cs[0], end=cs[0], strand=qs)       # e.g. a fetched feature widened by a flank
            q.start, q.end = s, e
        else:
            q = Feature(seqid=S1, start=s, end=e, strand=qs)
        got = db.region(region=q, completely_within=cw, featuretype=ft)
        exp = brute(feats, S1, s, e, cw, None, ft)
        alt = brute(feats, S1, s, e, cw, qs, ft)
    elif form == "noseqid":
        got = db.region(start=s, end=e, completely_within=cw, strand=strand, featuretype=ft)
        exp = brute(feats, None, s, e, cw, strand, ft)
    elif form in ("start_only", "end_only"):
        exact = False
        if form == "start_only":
            got = db.region(seqid=S1, start=s, completely_within=cw, strand=strand, featuretype=ft)
            may = brute(feats, S1, s, 10 ** 12, False, strand, ft)                  # not entirely left of s
            must = [x for x in may if (FE[kind, ctx.tier][x][0] > s if cw else FE[kind, ctx.tier][x][1] > s)]
        else:
            got = db.region(seqid=S1, end=e, completely_within=cw, strand=strand, featuretype=ft)
            may = brute(feats, S1, -10 ** 12, e, False, strand, ft)
            must = [x for x in may if (FE[kind, ctx.tier][x][1] < e if cw else FE[kind, ctx.tier][x][0] < e)]
    elif form == "interleaved":
        # two region() results consumed in lock step on one FeatureDB object
        other = [f.id for f in db.region(region=(S2, 1, cs[-1]))]
        alone = [f.id for f in db.region(region=lim_t, completely_within=cw, strand=strand, featuretype=ft)]
        pairs = [(a.id, b.id) for a, b in zip(db.region(region=lim_t, completely_within=cw, strand=strand, featuretype=ft),
                                              db.region(region=(S2, 1, cs[-1])))]
        exp = brute(feats, S1, s, e, cw, strand, ft)
        ctx.check(pairs == list(zip(alone, other)), "interleaved-region-results-differ", sig, start=s, end=e, got=pairs[:6],
                  expected=list(zip(alone, other))[:6])
        got = db.region(region=lim_t, completely_within=cw, strand=strand, featuretype=ft)
    elif form == "all_features":
        got = list(db.all_features(limit=lim_t, completely_within=cw, strand=strand, featuretype=ft))
        exp = brute(feats, S1, s, e, cw, strand, ft)
        pos = [f.id for f in db.all_features(lim_t, strand, ft, "start", False, cw)]         # (limit, strand, featuretype, order_by, reverse, completely_within)
        kwd = [f.id for f in db.all_features(limit=lim_t, strand=strand, featuretype=ft, order_by="start", reverse=False, completely_within=cw)]
        ctx.check(sorted(pos) == sorted(kwd) and sorted(pos) == sorted(f.id for f in got), "positional-call-differs-from-keyword-call",
                  dict(sig, method="all_features"), start=s, end=e, keyword=kwd[:8], positional=pos[:8])
    elif form == "all_features_str":
        got = db.all_features(limit=lim_s, completely_within=cw, strand=strand, featuretype=ft)
        exp = brute(feats, S1, s, e, cw, strand, ft)
    elif form == "features_of_type":
        t = ft or ("gene", "exon")
        got = list(db.features_of_type(t, limit=lim_t, completely_within=cw, strand=strand))
        exp = brute(feats, S1, s, e, cw, strand, t)
        pos = [f.id for f in db.features_of_type(t, lim_t, strand, "start", False, cw)]      # (featuretype, limit, strand, order_by, reverse, completely_within)
        ctx.check(sorted(pos) == sorted(f.id for f in got), "positional-call-differs-from-keyword-call", dict(sig, method="features_of_type"),
                  start=s, end=e, keyword=sorted(f.id for f in got)[:8], positional=sorted(pos)[:8])
    elif form == "children":
        got = db.children("R", limit=lim_t if strand is None else lim_s, completely_within=cw, featuretype=ft)
        exp = brute(feats, S1, s, e, cw, None, ft)
    elif form == "parents":
        got = db.parents("L", limit=lim_t if strand is None else lim_s, completely_within=cw, featuretype=ft)
        exp = brute(feats, S1, s, e, cw, None, ft)
    got = [f.id for f in got]
    ctx.check(len(got) == len(set(got)), "feature-returned-twice", dict(sig, helper_features_included=True), start=s, end=e,
              twice=sorted({x for x in got if got.count(x) > 1})[:6])
    got = [x for x in got if x not in ("R", "L")]
    ctx.sample(lambda: dict(db=kind, form=form, start=s, end=e, completely_within=cw, strand=strand, featuretype=ft, n_returned=len(got)))
    dup = len(got) != len(set(got))
    ctx.check(not dup, "feature-returned-twice", sig, start=s, end=e, got=sorted(got)[:10])
    got = sorted(set(got))
    if exact:
        ctx.nontrivial(0 < len(exp) < len(feats))
        ctx.outcome((kind, form, cw, len(exp) == 0, len(exp)))
        ok = got == exp or (form == "Feature" and got == alt)
        if not ok:
            missing = sorted(set(exp) - set(got))
            extra = sorted(set(got) - set(exp))
            ctx.fail("query-result-differs", dict(sig, missing=bool(missing), extra=bool(extra)), start=s, end=e, strand=strand,
                     featuretype=ft, missing=[(m, FE[kind, ctx.tier][m]) for m in missing[:6]],
                     extra=[(m, FE[kind, ctx.tier][m]) for m in extra[:6]], n_expected=len(exp), n_got=len(got))
    else:
        ctx.nontrivial(0 < len(must) < len(feats))
        ctx.outcome((kind, form, cw, len(must), len(may)))
        missing = sorted(set(must) - set(got))
        extra = sorted(set(got) - set(may))
        ctx.check(not missing, "one-sided-query-misses-feature-beyond-bound", sig, start=s, end=e, missing=missing[:6])
        ctx.check(not extra, "one-sided-query-returns-feature-outside-half-line", sig, start=s, end=e, extra=extra[:6])


class _FE(dict):
    """(kind, tier) -> {id: (start, end)} built lazily (pure data, no database)."""

    def __missing__(self, key):
        kind, tier = key
        cs = coords(tier) if kind in ("A", "T") else list(range(1, 7))
        d, i = {}, 0
        for a in cs:
            for b in cs:
                if a <= b:
                    d["f%d" % i] = (a, b)
                    i += 1
        for j, (a, b) in enumerate([(cs[0], cs[0]), (cs[0], cs[-1]), (cs[1], cs[2]), (cs[2], cs[-2]), (cs[-1], cs[-1])]):
            d["g%d" % j] = (a, b)
        self[key] = d
        return d


FE = _FE()
