"""C12 -- genomic binning is sound (E1, pure function)."""
from gffutils import bins as B
from gffutils.feature import Feature

from gv.model import bins_ref as R

ID = "C12"
RULE = (
    "Part 'grid' (shards = convention {gff, bed} x blocks of 8 start values): every (start, end) pair over the boundary grid (135 "
    "coordinates quick / 588 thorough: m*2^(17+3k)+d for k = 0..4, m in {1,2,3,7,8,9} quick / {1..16,63,64,65} thorough, |d| <= 2 quick "
    "/ 3 thorough, plus 0+d and 2^29+d) x result form one=True/False x whether the same numbers were first asked under the other "
    "convention. One-bin form: out-of-range gives the integer 1; an empty interval start = end+1 gives a finest-level bin holding the "
    "following base; otherwise the result is a bin whose arithmetic extent contains the interval and is not coarser than allowed; for "
    "gff with start <= end Feature.bin / calc_bin() agree, a Feature built from the same coordinates given as text or as integer-valued "
    "floats (start >= 0) has integer coordinates and the same bin, and a Feature whose coordinates were changed after construction "
    "stores the bin of its current coordinates. Set form: a set; out-of-range contains 1 and is not shared state (editing it does not "
    "change the next answer); otherwise it contains every overlapping bin and nothing beyond the +-1 neighbourhood. Part 'pairs' "
    "(shards = stored start over the sub-grid, 25 / 35 coordinates, gff): every stored interval x every overlapping in-range query "
    "interval: the stored one-bin is in the query's bin set. Non-trivial = out-of-range coordinate; in-range one-bin: the interval "
    "touches a bin boundary or the bin is above the finest level; set form: must and may sets differ; every checked pair. The call "
    "without `one` must give the one-bin form (the documented default)."
)
ASSUMPTIONS = [
    "exhaustive over the boundary grid only; elsewhere the function depends on coordinates only through "
    ">>17 and >>3 steps, so every behavioural boundary lies within +-2 of a multiple of a bin size",
    "inverted intervals (start > end + 1) are outside the statement and skipped, except for the out-of-range rule; the empty interval "
    "start = end + 1 is checked in the one-bin form only (a finest-level bin holding the following base)",
]


def grid(tier):
    width = 2 if tier == "quick" else 3
    ms = (1, 2, 3, 7, 8, 9) if tier == "quick" else tuple(range(1, 17)) + (63, 64, 65)
    s = set()
    for k in range(5):
        for m in ms:
            c = m << (17 + 3 * k)
            for d in range(-width, width + 1):
                s.add(c + d)
    for c in (0, 2 ** 29):
        for d in range(-width, width + 1):
            s.add(c + d)
    return sorted(s)


def subgrid(tier):
    s = set()
    n = 1 if tier == "quick" else 2
    for k in range(5):
        for m in (1, 2, 8):
            c = m << (17 + 3 * k)
            for d in range(-1, n):
                s.add(c + d)
    s.update((1, 2, 2 ** 29 - 1, 2 ** 29, 2 ** 29 + 1))
    return sorted(x for x in s if x >= 1)


def bounds(tier):
    g = grid(tier)
    sg = subgrid(tier)
    return dict(grid_coordinates=len(g), grid_min=g[0], grid_max=g[-1],
                pair_subgrid_coordinates=len(sg), fmts=["gff", "bed"], one=[True, False])


_G = {}


def shards(tier):
    g = _G.setdefault(("g", tier), grid(tier))
    sg = _G.setdefault(("s", tier), subgrid(tier))
    out = []
    for fmt in ("gff", "bed"):
        for i in range(0, len(g), 8):
            out.append(("grid", tier, fmt, i, min(i + 8, len(g))))
    for i in range(len(sg)):
        out.append(("pairs", tier, i))
    return out


def check_one(ctx, start, end, fmt):
    got = B.bins(start, end, fmt=fmt, one=True)
    sig = dict(fmt=fmt, one=True)
    if not R.in_range(start, end, fmt):
        ctx.nontrivial()
        ctx.outcome(("oor", fmt, True, type(got).__name__))
        ctx.check(got == 1 and isinstance(got, int), "out-of-range-not-bin-1",
                  dict(sig, start_below_first=start < (1 if fmt == "gff" else 0) and start >= -2 and 0 <= end < R.LIMIT),
                  start=start, end=end, got=repr(got)[:200])
        return got
    lo, hi = R.zero_based(start, end, fmt)
    if lo == hi + 1:
        # empty interval written start = end + 1 (e.g. a zero-length insertion site): still ONE integer bin, the finest
        # one holding the base that follows it
        ext = R.level_extent(got)
        ok = ext is not None and ext[0] == 0 and ext[1] <= lo <= ext[2]
        ctx.check(ok, "empty-interval-bin-wrong", sig, start=start, end=end, got=repr(got)[:200])
        ctx.outcome(("empty", fmt))
        return got
    if lo > hi:
        return got
    ext = R.level_extent(got)
    if not ctx.check(ext is not None, "not-a-bin", sig, start=start, end=end, got=repr(got)[:200]):
        return got
    lvl, blo, bhi = ext
    ctx.check(blo <= lo and hi <= bhi, "bin-does-not-contain-interval", sig,
              start=start, end=end, got=got, extent=[blo, bhi])
    allowed = R.smallest_level_containing(lo, hi + 1)
    ctx.check(lvl <= allowed, "bin-coarser-than-allowed", sig, start=start, end=end, got=got,
              level=lvl, allowed=allowed)
    if R.smallest_level_containing(lo - 1, hi + 1) != R.smallest_level_containing(lo, hi) or lvl > 0:
        ctx.nontrivial()
    ctx.outcome(("in", fmt, True, lvl, allowed))
    return got


def check_set(ctx, start, end, fmt):
    got = B.bins(start, end, fmt=fmt, one=False)
    sig = dict(fmt=fmt, one=False)
    if not ctx.check(isinstance(got, (set, frozenset)), "set-form-not-a-set", sig,
                     start=start, end=end, got=repr(got)[:200]):
        return None
    if not R.in_range(start, end, fmt):
        ctx.nontrivial()
        ctx.outcome(("oor", fmt, False))
        ctx.check(1 in got, "out-of-range-set-lacks-bin-1", sig, start=start, end=end, got=sorted(got)[:20])
        # the returned set belongs to the caller: editing it must not change later answers
        try:
            got.add(999999)
            got.discard(1)
        except AttributeError:
            pass
        again = B.bins(start, end, fmt=fmt, one=False)
        ctx.check(isinstance(again, (set, frozenset)) and 1 in again and 999999 not in again, "returned-set-is-shared-state", sig,
                  start=start, end=end, second=sorted(again)[:10] if isinstance(again, (set, frozenset)) else repr(again))
        return got
    lo, hi = R.zero_based(start, end, fmt)
    if lo > hi:
        return got
    must = R.overlapping_bins(lo, hi)
    may = R.overlapping_bins(lo - 1, hi + 1)
    missing = must - got
    extra = got - may
    ctx.check(not missing, "set-misses-overlapping-bin", sig, start=start, end=end, missing=sorted(missing)[:10])
    ctx.check(not extra, "set-has-non-overlapping-bin", sig, start=start, end=end, extra=sorted(extra)[:10])
    if must != may:
        ctx.nontrivial()
    ctx.outcome(("in", fmt, False, len(got) - len(must)))
    return got


def body(ch, ctx):
    sh = ctx.shard
    if sh[0] == "grid":
        _, tier, fmt, i0, i1 = sh
        g = _G.get(("g", tier)) or _G.setdefault(("g", tier), grid(tier))
        start = ch.choose("start", g[i0:i1])
        end = ch.choose("end", g)
        one = ch.choose("one", (True, False))
        other_first = ch.choose("other_convention_first", (True, False))     # True first: the first time a worker meets a pair, the OTHER convention is asked first
        ctx.sample(lambda: dict(start=start, end=end, fmt=fmt, one=one, other_convention_first=other_first))
        other = "bed" if fmt == "gff" else "gff"
        if other_first:
            # the same numbers asked under the other convention first: answers must not depend on call history
            B.bins(start, end, fmt=other, one=one)
        if one:
            got = check_one(ctx, start, end, fmt)
            # "bins(start, end) returns one integer bin": the one-bin form is the default
            dflt = B.bins(start, end, fmt=fmt)
            ctx.check(dflt == got and type(dflt) is type(got), "default-form-is-not-the-one-bin-form", dict(fmt=fmt), start=start, end=end,
                      default=repr(dflt)[:100], one=repr(got)[:100])
            if fmt == "gff" and start <= end:
                f = Feature(seqid="c", start=start, end=end)
                ok = f.bin == got and f.calc_bin() == got and type(f.bin) is type(got)
                ctx.check(ok, "feature-bin-differs-from-bins", dict(fmt=fmt), start=start, end=end,
                          feature_bin=repr(f.bin)[:100], bins=repr(got)[:100])
                # coordinates handed over as text or as a float holding an integer: the same feature, the same bin
                if start >= 0:
                    for form, (a, b) in (("str", (str(start), str(end))), ("float", (float(start), float(end)))):
                        if form == "float" and (int(a) != start or int(b) != end):
                            continue
                        h = Feature(seqid="c", start=a, end=b)
                        ctx.check((h.start, h.end, h.bin) == (start, end, got) and type(h.start) is int and h.astuple()[-1] == got,
                                  "feature-bin-differs-from-bins", dict(fmt=fmt, coordinates_given_as=form), start=start, end=end,
                                  feature=repr((h.start, h.end, h.bin))[:100], bins=repr(got)[:100])
                # the bin that goes into the database follows the coordinates the feature has when it is stored
                g2 = Feature(seqid="c", start=1, end=1)
                g2.start, g2.end = start, end
                stored = g2.astuple()[-1]
                ctx.check(stored == got and g2.calc_bin() == got, "stored-bin-stale-after-coordinate-change", dict(fmt=fmt),
                          start=start, end=end, stored=repr(stored)[:100], bins=repr(got)[:100])
        else:
            check_set(ctx, start, end, fmt)
    else:
        _, tier, i = sh
        sg = _G.get(("s", tier)) or _G.setdefault(("s", tier), subgrid(tier))
        s1 = sg[i]
        e1 = ch.choose("e1", sg[i:])
        j = ch.index("s2", len(sg))
        s2 = sg[j]
        e2 = ch.choose("e2", sg[j:])
        fmt = "gff"
        ctx.sample(lambda: dict(stored=[s1, e1], query=[s2, e2], fmt=fmt))
        if not (s1 <= e2 and s2 <= e1):
            ctx.outcome("disjoint")
            return
        if not R.in_range(s2, e2, fmt):
            ctx.outcome("query-out-of-range")
            return  # the set form is {1} by the statement; C06 covers the query side
        ctx.nontrivial()
        b1 = B.bins(s1, e1, fmt=fmt, one=True)
        set2 = B.bins(s2, e2, fmt=fmt, one=False)
        ok = isinstance(set2, (set, frozenset)) and b1 in set2
        ctx.outcome(("pair", R.in_range(s1, e1, fmt), b1 == 1))
        ctx.check(ok, "stored-bin-not-in-query-bins", dict(stored_in_range=R.in_range(s1, e1, fmt)),
                  stored=[s1, e1], query=[s2, e2], bin=repr(b1)[:100],
                  query_bins=sorted(set2)[:12] if isinstance(set2, (set, frozenset)) else repr(set2))
