"""C19 -- existing databases are never clobbered; queries never write (E1)."""
import os
import shutil

import gffutils
from gffutils import merge_criteria as mc

from gv.model import dbutil

ID = "C19"
RULE = (
    "Part 'clobber' (shards = old file database in {GFF3, GTF, GFF3 after an update (13 features: more than an importer inspects before it writes), GTF without inference, GFF3 with every feature "
    "deleted again} x new input in 3): force x input form {path, from_string, list of Features; for new input 0 and a non-emptied old "
    "database also 'selfdb' = the old database itself as a FeatureDB opened on the very path to be rebuilt} x old database opened "
    "before in this process or not x call variant {plain, rejected merge_strategy/force_merge_fields combination, pragmas=None, input "
    "file older than the database} x (plain variant only) the database path given as absolute, relative, or a symbolic link in another "
    "directory with a relative link text; file name t.db (path, selfdb) / t.sqlite3 (others); create_db runs in a scratch working "
    "directory. Without force create_db must raise and the file's canonical content must be unchanged (also for the failing call "
    "variants); a failing variant must raise whatever force says; with force the import must not raise, the returned object and the "
    "reopened file show the new directives/dialect/features, the file equals a fresh import (selfdb: from a copy of the old file) "
    "canonically and no old feature survives. Part 'reads' (shards = 4 old databases (not the emptied one) x first call): every "
    "sequence of length 1..3 (quick) / 1..4 (thorough) over 19 read-style calls x a flag 'an earlier write on this object failed "
    "half-way' (single calls also x FeatureDB opened with default options, keep_order, sort_attribute_values or custom pragmas), on a "
    "copy of the file, under a sqlite statement trace (only SELECT/PRAGMA allowed; no call may raise other than FeatureNotFoundError), "
    "then a canonical comparison of all tables of the closed file and of directives, dialect and counters of a reopened FeatureDB; byte "
    "identity is recorded as an outcome. Non-trivial = every execution. force=True is named when forcing; a refusal is asked for by "
    "force=False (path input), by omitting the argument (string, selfdb input) or, for Feature-list input (plain variant), by passing "
    "id_spec as third positional argument and no force."
)
ASSUMPTIONS = [
    "the statement trace sees every statement the connection executes (sqlite3.Connection.set_trace_callback)",
    "byte identity of the file is reported as an outcome; the verdict is on canonical content (all tables, counters, dialect, directives)",
    "a FeatureDB is a legitimate create_db input even when it is open on the target path: a forced rebuild from it gives the database an import from a copy gives",
]

GFF = [
    "##gff-version 3",
    "c1\ts\tgene\t1\t100\t.\t+\t.\tID=g1",
    "c1\ts\tmRNA\t1\t100\t.\t+\t.\tID=m1;Parent=g1",
    "c1\ts\texon\t1\t20\t.\t+\t.\tID=e1;Parent=m1",
    "c1\ts\texon\t15\t40\t.\t+\t.\tID=e2;Parent=m1",
    "c1\ts\texon\t60\t100\t.\t+\t.\tID=e3;Parent=m1",
    "c1\ts\tCDS\t5\t70\t.\t+\t0\tParent=m1",
    "c1\ts\tpart\t2\t3\t.\t+\t.\tID=p1;Parent=e1;note=late",       # a key first seen after the lines inspected for the dialect
]
GTF = [
    'c1\ts\texon\t1\t20\t.\t-\t.\tgene_id "g1"; transcript_id "m1"; exon_number "1"; ID "x1";',
    'c1\ts\texon\t15\t40\t.\t-\t.\tgene_id "g1"; transcript_id "m1"; exon_number "2"; ID "x2";',
    'c1\ts\texon\t60\t100\t.\t-\t.\tgene_id "g1"; transcript_id "m1"; exon_number "3"; ID "x3";',
    'c1\ts\tCDS\t5\t70\t.\t-\t0\tgene_id "g1"; transcript_id "m1"; tag "late";',
]
UPD = ["c1\ts\texon\t45\t50\t.\t+\t.\tParent=m1", "c1\ts\tgene\t200\t300\t.\t-\t.\tID=g9"]
# ... and enough further genes that the updated database holds more features (13) than an importer looks at before it starts writing
UPD += ["c2\ts\tgene\t%d\t%d\t.\t+\t.\tID=g1%d" % (10 * i, 10 * i + 5, i) for i in range(4)]
NEW = [
    ["c9\tz\tgene\t7\t9\t.\t+\t.\tID=n1"],
    ['c9\tz\texon\t7\t9\t.\t+\t.\tgene_id "n1"; transcript_id "nt1";'],
    ["##other directive", "c9\tz\tgene\t7\t9\t.\t+\t.\tID=g1", "c9\tz\tmRNA\t7\t9\t.\t+\t.\tID=n2;Parent=g1"],
]
KINDS = ("gff3", "gtf", "gff3_updated", "gtf_noinfer", "gff3_emptied")

CALLS = ["getitem", "all_features", "features_of_type", "children", "parents", "region_str", "region_within", "interfeatures",
         "create_introns", "create_splice_sites", "merge", "children_bp", "children_bp_merge", "bed12", "counts", "listings",
         "iter_by_parent_childs", "relatives_level3", "lookup_absent"]


def bounds(tier):
    return dict(old_databases=list(KINDS), new_inputs=len(NEW), read_calls=CALLS, max_sequence=3 if tier == "quick" else 4)


def shards(tier):
    out = [("clobber", k, ni) for k in KINDS for ni in range(len(NEW))]
    out += [("reads", k, c) for k in KINDS if k != "gff3_emptied" for c in range(len(CALLS))]
    return out


def pristine(ctx, kind):
    key = ("pristine", kind)
    if key not in ctx.memo:
        d = os.path.join(ctx.tmpdir, "c19-%s-%d" % (kind, os.getpid()))
        os.makedirs(d, exist_ok=True)
        path = os.path.join(d, "pristine.db")
        kw = dict(disable_infer_genes=True, disable_infer_transcripts=True) if kind == "gtf_noinfer" else {}
        src = dbutil.write_text(d, "src.txt", "\n".join(GTF if kind.startswith("gtf") else GFF) + "\n")
        db = gffutils.create_db(src, path, verbose=False, force=True, checklines=1, **kw)      # two lines inspected for the dialect
        if kind == "gff3_updated":
            u = dbutil.write_text(d, "upd.gff", "\n".join(UPD) + "\n")
            db.update(u, make_backup=False, verbose=False)
        if kind == "gff3_emptied":
            # every feature was deleted again: the file is still a database (directives, dialect, counters, schema)
            db.delete([f.id for f in db.all_features()], make_backup=False)
        dbutil.close_db(db)
        ctx.memo[key] = (path, dbutil.canon(path), open(path, "rb").read())
    return ctx.memo[key]


def body_clobber(ch, ctx):
    _, kind, ni = ctx.shard
    force = ch.flag("force")
    via = ch.choose("input", ("path", "from_string", "features") + (("selfdb",) if ni == 0 and kind != "gff3_emptied" else ()))
    ppath, pcanon, pbytes = pristine(ctx, kind)
    wd = ctx.fresh_dir()
    # (the file name does not always end in '.db')
    target = os.path.join(wd, "t.db" if via in ("path", "selfdb") else "t.sqlite3")
    shutil.copyfile(ppath, target)
    if ch.flag("old_database_opened_before"):
        old = gffutils.FeatureDB(target)            # the old database was in use in this process a moment ago
        list(old.all_features())
        dbutil.close_db(old)
    text = "\n".join(NEW[ni]) + "\n"
    from gffutils.feature import feature_from_line
    if via == "selfdb":
        # the new input is the old database itself, handed over as a FeatureDB on the very path that is to be (re)built
        shutil.copyfile(ppath, os.path.join(wd, "copy.db"))
        _first = [True]

        def data_factory():
            if _first[0]:
                _first[0] = False
                return gffutils.FeatureDB(target)
            return gffutils.FeatureDB(os.path.join(wd, "copy.db"))
    elif via == "features":
        def data_factory():
            return [feature_from_line(t) for t in NEW[ni] if not t.startswith("#")]
    else:
        def data_factory():
            return dbutil.write_text(wd, "new.txt", text) if via == "path" else text
    data = data_factory()
    kw = dict(from_string=True) if via == "from_string" else {}
    sig = dict(old=kind, force=force)
    ctx.sample(lambda: dict(old=kind, new=NEW[ni], force=force, input=via))
    ctx.nontrivial()
    variant = ch.choose("call", ("plain", "invalid_merge_fields", "pragmas_none", "input_older_than_database"))
    extra = {}
    if variant == "invalid_merge_fields":
        extra = dict(merge_strategy="merge", force_merge_fields=["start"])      # rejected option combination
    elif variant == "pragmas_none":
        extra = dict(pragmas=None)                                               # another call that cannot succeed
    elif variant == "input_older_than_database" and via == "path":
        os.utime(data, (1000000000, 1000000000))                                 # the new input file is older than the old database
    sig = dict(sig, call=variant)
    # how the database path is written: absolute, relative to the current directory, or a symbolic link in another directory
    # whose link text is relative to ITS directory (the current directory is neither)
    pform = ch.choose("dbfn_form", ("absolute", "relative", "symlink")) if variant == "plain" else "absolute"
    real = target
    if pform == "relative":
        target = os.path.relpath(real)
    elif pform == "symlink":
        os.makedirs(os.path.join(wd, "links"))
        target = os.path.join(wd, "links", os.path.basename(real))
        os.symlink(os.path.join("..", os.path.basename(real)), target)
    sig = dict(sig, dbfn=pform)
    raised = None
    cwd0 = os.getcwd()
    os.makedirs(os.path.join(wd, "cwd", "deeper"))
    os.chdir(os.path.join(wd, "cwd", "deeper"))         # whatever is resolved against the current directory stays inside the scratch space
    if pform == "relative":
        target = os.path.relpath(real)
    try:
        # "raises unless force=True": force=True is named; a refusal is asked for by force=False (path input), by leaving the
        # argument out (string input), or by a call that passes id_spec as third POSITIONAL argument and no force (Feature input)
        fkw = dict(force=True) if force else (dict(force=False) if via == "path" else {})
        if not force and via == "features" and variant == "plain":
            db = gffutils.create_db(data, target, "ID", verbose=False, **kw)
        else:
            db = gffutils.create_db(data, target, verbose=False, **dict(kw, **dict(extra, **fkw)))
    except Exception as e:
        raised = e
    finally:
        os.chdir(cwd0)
    if pform == "relative":
        target = real
    if variant in ("invalid_merge_fields", "pragmas_none"):
        # the call fails whatever 'force' says; without force the existing file must survive it untouched
        ctx.check(raised is not None, "invalid-call-did-not-raise", sig)
        if raised is None:
            dbutil.close_db(db)
        if not force:
            ok = os.path.exists(target) and dbutil.canon(target) == pcanon
            ctx.check(ok, "existing-database-destroyed-by-failing-call", sig, exists=os.path.exists(target), error=str(raised)[:200])
        ctx.outcome((kind, ni, force, variant))
        return
    if not force:
        ctx.check(raised is not None, "existing-database-overwritten-without-force", sig, new=NEW[ni])
        if raised is None:
            dbutil.close_db(db)
        after = dbutil.canon(target)
        same_bytes = open(target, "rb").read() == pbytes
        ctx.outcome((kind, ni, force, same_bytes))
        ctx.check(after == pcanon, "existing-database-content-changed-without-force", dict(sig, raised=raised is not None),
                  before_ids=[r[0] for r in pcanon["features"]], after_ids=[r[0] for r in after["features"]])
        return
    if not ctx.check(raised is None, "force-import-raised", dict(sig, exc=type(raised).__name__), message=str(raised)[:200]):
        return
    fresh = gffutils.create_db(data_factory(), os.path.join(wd, "fresh.db"), verbose=False, **kw)
    exp_dirs = [t[2:] for t in NEW[ni] if t.startswith("##")] if via != "features" else []
    if via == "selfdb":
        exp_dirs = list(fresh.directives)
    ctx.check(db.directives == exp_dirs, "forced-import-has-foreign-directives", dict(sig, input=via), got=db.directives, expected=exp_dirs)
    ctx.check(db.directives == fresh.directives and db.dialect == fresh.dialect
              and [str(f) for f in db.all_features()] == [str(f) for f in fresh.all_features()],
              "object-returned-by-forced-import-shows-old-database", sig, directives=db.directives, expected=fresh.directives,
              fmt=db.dialect.get("fmt"), expected_fmt=fresh.dialect.get("fmt"))
    dbutil.close_db(db)
    dbutil.close_db(fresh)
    re = gffutils.FeatureDB(target)
    ctx.check(re.directives == fresh.directives and re.dialect == fresh.dialect, "reopened-forced-import-shows-old-database", sig,
              directives=re.directives, expected=fresh.directives)
    dbutil.close_db(re)
    a, b = dbutil.canon(target), dbutil.canon(os.path.join(wd, "fresh.db"))
    ctx.outcome((kind, ni, force))
    ctx.check(a == b, "forced-import-differs-from-fresh-import", sig, got_ids=[r[0] for r in a["features"]],
              expected_ids=[r[0] for r in b["features"]], got_directives=a["directives"], expected_directives=b["directives"],
              got_counters=a["autoincrements"], expected_counters=b["autoincrements"])
    old_ids = {r[0] for r in pcanon["features"]} - {r[0] for r in b["features"]}
    ctx.check(not (old_ids & {r[0] for r in a["features"]}), "old-features-survive-forced-import", sig, survivors=sorted(old_ids & {r[0] for r in a["features"]}))


def do_call(db, name, kind):
    try:
        return _do_call(db, name, kind)
    except gffutils.FeatureNotFoundError:
        return "not-found"        # a legitimate answer of a read (e.g. ids that exist only as relation parents)


def _do_call(db, name, kind):
    tid = "m1"
    if name == "relatives_level3":
        ex = next(db.features_of_type("exon"))
        return (len(list(db.children("g1", level=3))), len(list(db.parents(ex, level=3))), len(list(db.children("g1"))))
    if name == "lookup_absent":
        out = []
        for key in ("g1", "m1", "nope", "exon_1", "G1"):
            try:
                out.append(db[key].id)
            except gffutils.FeatureNotFoundError:
                out.append(None)
        return out
    if name == "getitem":
        return db["g1"].id
    if name == "all_features":
        return len(list(db.all_features(order_by=("seqid", "start"))))
    if name == "features_of_type":
        return len(list(db.features_of_type("exon", order_by="start", strand="+")))
    if name == "children":
        return len(list(db.children("g1", level=None, featuretype="exon")))
    if name == "parents":
        ex = next(db.features_of_type("exon"))
        return len(list(db.parents(ex, level=1)))
    if name == "region_str":
        return len(list(db.region("c1:1-100")))
    if name == "region_within":
        return len(list(db.region(seqid="c1", start=5, end=60, completely_within=True, featuretype="exon")))
    if name == "interfeatures":
        return len(list(db.interfeatures(db.children(tid, featuretype="exon", order_by="start"), new_featuretype="intron")))
    if name == "create_introns":
        return len(list(db.create_introns()))
    if name == "create_splice_sites":
        return len(list(db.create_splice_sites()))
    if name == "merge":
        return len(list(db.merge(db.children(tid, featuretype="exon", order_by="start"))))
    if name == "children_bp":
        return db.children_bp(tid, child_featuretype="exon")
    if name == "children_bp_merge":
        return db.children_bp(tid, child_featuretype="exon", merge=True)
    if name == "bed12":
        return db.bed12(tid, name_field="ID" if kind != "gtf" else "transcript_id")
    if name == "counts":
        return (db.count_features_of_type("exon"), db.count_features_of_type())
    if name == "listings":
        return (sorted(db.featuretypes()), sorted(db.seqids()))
    if name == "iter_by_parent_childs":
        return [len(u) for u in db.iter_by_parent_childs()]
    raise ValueError(name)


def body_reads(ch, ctx):
    _, kind, c0 = ctx.shard
    maxlen = 3 if ctx.tier == "quick" else 4
    n = ch.choose("length", range(1, maxlen + 1))
    seq = [CALLS[c0]] + [ch.choose("call%d" % i, CALLS) for i in range(1, n)]
    ppath, pcanon, pbytes = pristine(ctx, kind)
    wd = ctx.fresh_dir()
    target = os.path.join(wd, "r.db")
    shutil.copyfile(ppath, target)
    # a single call is also made on objects opened with non-default options
    okw = ch.choose("open_options", ({}, dict(keep_order=True), dict(sort_attribute_values=True), dict(pragmas={"cache_size": 100}))) if n == 1 else {}
    db = gffutils.FeatureDB(target, **okw)
    pending = ch.flag("failed_write_pending")
    if pending:
        # an earlier write on this object failed half-way (its callback raised): nothing of it may ever reach the file
        def boom(parent, child):
            raise RuntimeError("callback failed")
        try:
            first = next(db.all_features())
            db.add_relation(first, first, 9, parent_func=boom)
        except RuntimeError:
            pass
    stmts = []
    db.conn.set_trace_callback(stmts.append)
    results = []
    sig = dict(db=kind, open_options=",".join(sorted(okw)))
    ctx.sample(lambda: dict(db=kind, calls=seq, open_options=okw))
    sig_pending = None
    ctx.nontrivial()
    for name in seq:
        try:
            results.append(repr(do_call(db, name, kind))[:60])
        except Exception as e:
            ctx.fail("read-call-raised", dict(sig, call=name, exc=type(e).__name__), calls=seq, message=str(e)[:200])
    db.conn.set_trace_callback(None)
    writes = [s for s in stmts if s.strip().split(None, 1)[0].upper() not in ("SELECT", "PRAGMA")]
    ctx.check(not writes, "read-call-issued-write-statement", dict(sig, statement=(writes[0].strip().split(None, 1)[0].upper() if writes else None)),
              calls=seq, statements=[w.strip()[:120] for w in writes[:4]])
    dbutil.close_db(db)
    after = dbutil.canon(target)
    same_bytes = open(target, "rb").read() == pbytes
    ctx.outcome((kind, same_bytes, len(stmts) > 0))
    changed = [k for k in pcanon if pcanon[k] != after[k]]
    ctx.check(not changed, "database-content-changed-by-reads", dict(sig, tables=",".join(changed), failed_write_pending=pending), calls=seq)
    reopened = gffutils.FeatureDB(target)
    ok = (reopened.directives == pcanon["directives"] and reopened.dialect == pcanon["meta"][0][0]
          and sorted(dict(reopened._autoincrements).items()) == pcanon["autoincrements"])
    ctx.check(ok, "reopened-object-state-changed-by-reads", sig, calls=seq, counters=dict(reopened._autoincrements))
    dbutil.close_db(reopened)


def body(ch, ctx):
    if ctx.shard[0] == "clobber":
        body_clobber(ch, ctx)
    else:
        body_reads(ch, ctx)
