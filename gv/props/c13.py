"""C13 -- all input forms are equivalent and dialect peeking never consumes data (E1)."""
import collections
import gzip
import os

import gffutils
from gffutils.feature import feature_from_line
from gffutils import inspect as gi

from gv.model import dbutil, files, grammar as G

ID = "C13"
RULE = (
    "Part 'forms' (shards = annotation x input form): 7 annotations in quick = GFF3 n=1,3,4,12, GTF n=3, a 4-line GFF3 text with "
    "inconsistent multi-value spelling, a 4-line GFF3 text whose third feature has '.' coordinates (thorough 10: also GTF n=5, GFF3 "
    "n=25, GTF n=14) x 13 forms (path, .gz, from_string, list of Features, instrumented one-shot generator, DataIterator with the "
    "transform on the iterator or on create_db, FeatureDB, path / .gz / string with CRLF line ends, a plain-text path whose name "
    "contains '.gz', a plain path with bare CR line ends) x checklines 0..n+2 x transform (none, modify, drop-odd: every second feature "
    "is skipped by answering None, False, 0 or '' in turn). Iteration and import must not raise; iterated sequence equals the "
    "expectation; transform called exactly once per feature in order; generator items pulled exactly once in order; two live iterators "
    "of the same form over different annotations do not interfere; create_db from the form gives the same features+relations and stored "
    "dialect as create_db from a plain path, whose lines equal the expectation. For the inconsistent text only transform none is run "
    "and the iterated sequence is compared with the path form. Part 'inspect' (annotation x {path, list, generator, DataIterator with a "
    "counting transform}; not the inconsistent text; plus a 3-line GFF3 annotation without any attribute as path and list): all 16 "
    "look_for subsets x limit None, 1..n+1; inspect() equals a Counter reference and iterates no more features than it reports. "
    "Non-trivial = checklines < n or a transform is given or the form is not a plain path (forms); look_for non-empty and limit None or "
    "<= n (inspect). Part 'update' (annotations GFF3 n=4 / n=12 and GTF n=3 x forms path, gzip, string, list, one-shot generator x "
    "checklines {0,1,10} x transform): the same input goes through FeatureDB.update() on an existing file database; after reopening, "
    "earlier features are unchanged, new ones equal the expectation in order, transform and pull logs are exact; all non-trivial."
)
ASSUMPTIONS = [
    "annotations are consistent files whose lines all carry the same keys (so every form infers the same dialect); the one exception, 'gff3mixed' (repeated key vs comma list), is judged only differentially against the path form, never against the grammar's expectation",
    "for the FeatureDB form of the GTF annotation the source database is built with inference disabled (it then holds exactly the file's lines)",
    "a transform mutating list-of-Feature inputs in place is the caller's business: inputs are rebuilt for every run",
    "any false value returned by a transform (None, False, 0, '') means 'skip this feature'",
    "a bare CR ends a line of a plain file (universal newlines); an annotation without attributes gives an empty attribute_keys count in inspect()",
]

FORMS = ("path", "gz", "string", "list", "generator", "DataIterator", "DataIterator+kw", "FeatureDB", "path_crlf", "gz_crlf", "string_crlf", "path_oddname",
         "path_cr")          # bare CR line ends (universal newlines apply to plain files)
TRANSFORMS = ("none", "modify", "drop-odd")


def annotations(tier):
    out = [("gff3", 1), ("gff3", 3), ("gff3", 4), ("gtf", 3), ("gff3mixed", 4), ("gff3dots", 4), ("gff3", 12)]     # 12: longer than the default window
    if tier != "quick":
        out += [("gtf", 5), ("gff3", 25), ("gtf", 14)]
    return out


def bounds(tier):
    return dict(annotations=annotations(tier), forms=list(FORMS), transforms=list(TRANSFORMS),
                checklines="0..n+2", inspect_look_for_subsets=16)


def shards(tier):
    out = []
    for a in annotations(tier):
        for form in FORMS:
            out.append(("forms", a, form))
        for form in ("path", "list", "generator", "counted"):
            if a[0] != "gff3mixed":
                out.append(("inspect", a, form))
        if a == ("gff3", 4):
            for form in ("path", "list"):
                out.append(("inspect", ("gff3bare", 3), form))
        if a in (("gff3", 4), ("gtf", 3), ("gff3", 12)):
            for form in ("path", "gz", "string", "list", "generator"):
                out.append(("update", a, form))
    return out


def texts_of(kind, n):
    if kind == "gff3mixed":
        # lines that do not agree on how multiple values are written (one repeats the key, the others use comma lists);
        # both spellings parse to the same attributes under either dialect, so every form must still agree
        return ["c1\ts\tgene\t10\t20\t.\t+\t.\tID=h0;tag=t0,u0;Name=a",
                "c1\ts\tmRNA\t15\t25\t.\t+\t.\tID=h1;tag=t1,u1;Name=b",
                "c1\ts\texon\t20\t30\t.\t+\t.\tID=h2;tag=t2;tag=u2;Name=c",
                "c1\ts\texon\t25\t35\t.\t+\t.\tID=h3;tag=t3,u3;Name=d"][:n]
    if kind == "gff3dots":
        # the third feature has no coordinates ('.' start and end): it has no length, hence no truth value of its own
        return ["c1\ts\tgene\t10\t20\t.\t+\t.\tID=d0;tag=t0,u0;Name=a",
                "c1\ts\tmRNA\t15\t25\t.\t+\t.\tID=d1;tag=t1,u1;Name=b",
                "c1\ts\tregion\t.\t.\t.\t+\t.\tID=d2;tag=t2,u2;Name=c",
                "c1\ts\texon\t25\t35\t.\t+\t.\tID=d3;tag=t3,u3;Name=d"][:n]
    if kind == "gff3bare":
        # features without any attribute (inspect part only)
        return ["c1\ts\tgene\t10\t20\t.\t+\t.\t", "c1\ts\tmRNA\t15\t25\t.\t+\t.\t", "c2\ts\tgene\t20\t30\t.\t-\t.\t"][:n]
    if kind == "gff3":
        d = G.ALL[0]
        return files.render(d, files.file_lines(d, "parent" if n >= 3 else "same", n))
    out = []
    for i in range(n):
        t = "t%d" % (i // 2)
        out.append('c1\ts\t%s\t%d\t%d\t.\t+\t.\tgene_id "g1"; transcript_id "%s"; exon_number "%d";'
                   % ("exon" if i % 3 != 2 else "CDS", 10 + 20 * i, 20 + 20 * i, t, i + 1))
    return out


class Source(object):
    """Instrumented one-shot iterator: records every next()."""

    def __init__(self, feats):
        self.feats, self.i, self.log = feats, 0, []

    def __iter__(self):
        return self

    def __next__(self):
        if self.i >= len(self.feats):
            self.log.append("stop")
            raise StopIteration
        f = self.feats[self.i]
        self.log.append(self.i)
        self.i += 1
        return f


def _start(f):
    return "." if f.start is None else str(f.start)


def make_transform(name, log, starts=None):
    if name == "none":
        return None

    def modify(f):
        log.append(_start(f))
        key = "tag" if "tag" in f.attributes else "exon_number"
        f.attributes[key] = [v + "_x" for v in f.attributes[key]]
        return f

    def drop_odd(f):
        log.append(_start(f))
        idx = len(log) - 1          # the i-th feature handed over (starts repeat in the longer annotations)
        return f if idx % 2 == 0 else (None, False, 0, "")[(idx // 2) % 4]         # any false value means "skip"

    return modify if name == "modify" else drop_odd


def expected_after(kind, texts, tname):
    out = []
    for i, t in enumerate(texts):
        if tname == "drop-odd" and i % 2 == 1:
            continue
        if tname == "modify":
            if kind in ("gff3", "gff3dots"):
                t = t.replace("tag=t%d,u%d" % (i, i), "tag=t%d_x,u%d_x" % (i, i))
            else:
                t = t.replace('exon_number "%d"' % (i + 1), 'exon_number "%d_x"' % (i + 1))
        out.append(t)
    return out


def build_input(form, kind, texts, wd, cl, tf, tag):
    """-> (data, iterator kwargs, extra kwargs for create_db, source)"""
    text = "\n".join(texts) + "\n"
    if form.endswith("_crlf"):
        text = text.replace("\n", "\r\n")         # DOS line ends
        form = form[:-5]
    elif form == "path_cr":
        p = os.path.join(wd, "in%s_cr.gff" % tag)
        with open(p, "w", newline="") as fh:
            fh.write(text.replace("\n", "\r"))     # old Mac line ends
        return p, dict(checklines=cl, **({"transform": tf} if tf is not None else {})), None
    src = None
    kw = dict(checklines=cl)
    if tf is not None and form != "DataIterator+kw":
        kw["transform"] = tf
    if form == "path_oddname":
        return dbutil.write_text(wd, "ann%s.gz.version2.txt" % tag, text), kw, src      # '.gz' inside the name, not a gzip file
    if form == "path":
        return dbutil.write_text(wd, "in%s.gff" % tag, text), kw, src
    if form == "gz":
        p = os.path.join(wd, "in%s.gff.gz" % tag)
        with gzip.open(p, "wb") as fh:
            fh.write(text.encode("utf-8"))
        return p, kw, src
    if form == "string":
        kw["from_string"] = True
        return text, kw, src
    feats = [feature_from_line(t) for t in texts]
    if form == "list":
        return feats, kw, src
    if form == "generator":
        src = Source(feats)
        return src, kw, src
    if form.startswith("DataIterator"):
        p = dbutil.write_text(wd, "in%s.gff" % tag, text)
        return gffutils.DataIterator(p, **kw), ({} if form == "DataIterator" else dict(transform=tf)), src
    if form == "FeatureDB":
        p = dbutil.write_text(wd, "src%s.gff" % tag, text)
        # the source database files its features under keys of its own: the new import has to key them by ITS id_spec
        sdb = gffutils.create_db(p, ":memory:", verbose=False, disable_infer_genes=True, disable_infer_transcripts=True,
                                 id_spec=lambda f: "autoincrement:src")
        return sdb, kw, src
    raise ValueError(form)


def body_forms(ch, ctx):
    _, (kind, n), form = ctx.shard
    cl = ch.index("checklines", n + 3)
    tname = ch.choose("transform", TRANSFORMS)
    texts = texts_of(kind, n)
    wd = ctx.fresh_dir()
    sig = dict(form=form, transform=tname, kind=kind, transform_via_create_db_kw=(form == "DataIterator+kw" and tname != "none"))
    ctx.sample(lambda: dict(annotation=[kind, n], form=form, checklines=cl, transform=tname, first_line=texts[0]))
    ctx.nontrivial(cl < n or tname != "none" or form != "path")
    ctx.outcome((kind, n, form, cl < n, tname))
    exp = expected_after(kind, texts, tname)
    if kind == "gff3mixed":
        # no absolute expectation for inconsistent text: what the plain path form yields is the yardstick
        if tname != "none" or form in ("DataIterator+kw",):
            ctx.outcome("mixed-skipped")
            return
        yard = [str(f) for f in gffutils.DataIterator(dbutil.write_text(wd, "yard.gff", "\n".join(texts) + "\n"), checklines=cl)]
        data, kw, src = build_input(form, kind, texts, wd, cl, None, "m")
        it = data if form == "DataIterator" else gffutils.DataIterator(data, **kw)
        got = [str(f) for f in it]
        ctx.check(got == yard, "iterated-sequence-differs-from-path-form", sig, checklines=cl, got=got, expected=yard)
        return

    # 1. iterating the DataIterator
    if form != "DataIterator+kw":
        log = []
        tf = make_transform(tname, log, [t.split("\t")[3] for t in texts])
        data, kw, src = build_input(form, kind, texts, wd, cl, tf, "a")
        it = data if form == "DataIterator" else gffutils.DataIterator(data, **kw)
        try:
            got = [str(f) for f in it]
        except Exception as e:
            ctx.fail("iteration-raised", dict(sig, exc=type(e).__name__, coordinate_less_feature=kind == "gff3dots"), checklines=cl,
                     message=str(e)[:200], lines=texts)
            return
        ctx.check(got == exp, "iterated-sequence-differs", sig, checklines=cl, got=got, expected=exp)
        if tname != "none":
            want = [t.split("\t")[3] for t in texts]
            ctx.check(log == want, "transform-not-applied-exactly-once-in-order", sig, calls=log, expected=want)
        if src is not None:
            ctx.check([x for x in src.log if x != "stop"] == list(range(n)), "generator-items-not-pulled-once-in-order",
                      sig, log=src.log)

    # 1b. a second iterator of the same form over ANOTHER annotation is created before the first is consumed
    if form in ("path", "gz", "string", "list", "generator", "string_crlf", "gz_crlf") and tname == "none":
        okind, on = ("gtf", 3) if kind == "gff3" else ("gff3", 3)
        otexts = texts_of(okind, on)
        dataA, kwA, _ = build_input(form, kind, texts, wd, cl, None, "A")
        itA = gffutils.DataIterator(dataA, **kwA)
        dataB, kwB, _ = build_input(form, okind, otexts, wd, cl, None, "B")
        itB = gffutils.DataIterator(dataB, **kwB)
        gotA = [str(f) for f in itA]
        gotB = [str(f) for f in itB]
        ctx.check(gotA == texts and gotB == otexts, "two-live-iterators-interfere", sig, checklines=cl,
                  first=gotA[:2], expected_first=texts[:2], second=gotB[:2], expected_second=otexts[:2])

    # 2. create_db from this form vs. from a plain path
    log = []
    tf = make_transform(tname, log, [t.split("\t")[3] for t in texts])
    data, kw, src = build_input(form, kind, texts, wd, cl, tf, "b")
    if form == "DataIterator":
        cre = {}
    elif form == "DataIterator+kw":
        cre = dict(kw)
    else:
        cre = dict(kw)
    try:
        db = gffutils.create_db(data, ":memory:", verbose=False, **cre)
    except Exception as e:
        ctx.fail("import-raised", dict(sig, exc=type(e).__name__, coordinate_less_feature=kind == "gff3dots"), checklines=cl,
                 message=str(e)[:200], lines=texts)
        return
    rlog = []
    rtf = make_transform(tname, rlog, [t.split("\t")[3] for t in texts])
    rpath = dbutil.write_text(wd, "ref.gff", "\n".join(texts) + "\n")
    rkw = dict(checklines=cl)
    if rtf is not None:
        rkw["transform"] = rtf
    ref = gffutils.create_db(rpath, ":memory:", verbose=False, **rkw)
    a, b = dbutil.canon(db), dbutil.canon(ref)
    same = dbutil.content_only(a) == dbutil.content_only(b)
    ctx.check(same, "database-differs-from-path-import", sig, checklines=cl,
              got=[r[0] for r in a["features"]], expected=[r[0] for r in b["features"]],
              got_attrs=[r[9] for r in a["features"]][:3], exp_attrs=[r[9] for r in b["features"]][:3])
    ctx.check(a["meta"][0][0] == b["meta"][0][0], "database-dialect-differs-from-path-import", sig,
              got=a["meta"][0][0], expected=b["meta"][0][0])
    if tname != "none":
        want = [t.split("\t")[3] for t in texts]
        ctx.check(log == want, "transform-not-applied-exactly-once-in-order", dict(sig, api="create_db"), calls=log, expected=want)
    if src is not None:
        ctx.check([x for x in src.log if x != "stop"] == list(range(n)), "generator-items-not-pulled-once-in-order",
                  dict(sig, api="create_db"), log=src.log)
    # the imported lines themselves (absolute, not only differential)
    got_lines = [str(f) for f in ref.all_features() if f.source != "gffutils_derived"]
    ctx.check(got_lines == exp, "path-import-differs-from-expectation", sig, got=got_lines, expected=exp)


LOOK = ["featuretype", "chrom", "attribute_keys", "feature_count"]


def body_inspect(ch, ctx):
    _, (kind, n), form = ctx.shard
    mask = ch.index("look_for", 16)
    limit = ch.choose("limit", [None] + list(range(1, n + 2)))
    look = [k for i, k in enumerate(LOOK) if mask >> i & 1]
    texts = texts_of(kind, n)
    wd = ctx.fresh_dir()
    calls = []
    if form == "counted":
        def counting(f):
            calls.append(f.start)
            return f
        data = gffutils.DataIterator(dbutil.write_text(wd, "ins.gff", "\n".join(texts) + "\n"), transform=counting)
    else:
        data, kw, src = build_input(form, kind, texts, wd, 10, None, "i")
    res = gi.inspect(data, look_for=look, limit=limit, verbose=False)
    if form == "counted":
        ctx.check(len(calls) == res["feature_count"], "inspect-iterated-more-than-it-reports", dict(form=form, limited=limit is not None),
                  iterated=len(calls), reported=res["feature_count"], limit=limit)
    m = n if not limit else min(limit, n)
    feats = [feature_from_line(t) for t in texts[:m]]
    exp = {"feature_count": m}
    for k in look:
        if k == "attribute_keys":
            c = collections.Counter()
            for f in feats:
                c.update(f.attributes.keys())
            exp[k] = dict(c)
        elif k != "feature_count":
            exp[k] = dict(collections.Counter(getattr(f, k) for f in feats))
    ctx.sample(lambda: dict(annotation=[kind, n], form=form, look_for=look, limit=limit, result=res))
    ctx.nontrivial(bool(look) and (limit is None or limit <= n))
    ctx.outcome((kind, n, form, mask, limit is None))
    ctx.check(res == exp, "inspect-counts-differ", dict(form=form, limited=limit is not None), look_for=look, limit=limit,
              got=res, expected=exp)


def body_update(ch, ctx):
    """The same input forms and transforms through FeatureDB.update(): an existing database gains the second annotation."""
    _, (kind, n), form = ctx.shard
    cl = ch.choose("checklines", (0, 1, 10))
    tname = ch.choose("transform", TRANSFORMS)
    texts = texts_of(kind, n)
    wd = ctx.fresh_dir()
    base = ["c9\tb\tgene\t1\t5\t.\t+\t.\tID=base1;tag=x", "c9\tb\tgene\t7\t9\t.\t+\t.\tID=base2;tag=y"]
    if kind == "gtf":
        base = ['c9\tb\texon\t1\t5\t.\t+\t.\tgene_id "bg"; transcript_id "bt"; exon_number "1";']
    inf = dict(disable_infer_genes=True, disable_infer_transcripts=True) if kind == "gtf" else {}
    dbfn = os.path.join(wd, "u.db")
    db = gffutils.create_db(dbutil.write_text(wd, "base.gff", "\n".join(base) + "\n"), dbfn, verbose=False, **inf)
    before = [str(f) for f in db.all_features()]
    log = []
    tf = make_transform(tname, log, [t.split("\t")[3] for t in texts])
    data, kw, src = build_input(form, kind, texts, wd, cl, tf, "u")
    sig = dict(form=form, transform=tname, kind=kind, api="update")
    ctx.sample(lambda: dict(annotation=[kind, n], form=form, checklines=cl, transform=tname, api="update"))
    ctx.nontrivial()
    ctx.outcome(("update", kind, n, form, cl, tname))
    try:
        db.update(data, make_backup=False, verbose=False, **dict(kw, **inf))
    except Exception as e:
        ctx.fail("update-raised", dict(sig, exc=type(e).__name__), checklines=cl, message=str(e)[:200])
        return
    exp = expected_after(kind, texts, tname)
    dbutil.close_db(db)
    got = [str(f) for f in gffutils.FeatureDB(dbfn).all_features()]
    ctx.check(got[:len(before)] == before, "update-changed-earlier-features", sig, before=before, after=got[:len(before)])
    ctx.check(got[len(before):] == exp, "updated-database-differs-from-expectation", sig, checklines=cl, got=got[len(before):], expected=exp)
    if tname != "none":
        want = [t.split("\t")[3] for t in texts]
        ctx.check(log == want, "transform-not-applied-exactly-once-in-order", sig, calls=log, expected=want)
    if src is not None:
        ctx.check([x for x in src.log if x != "stop"] == list(range(n)), "generator-items-not-pulled-once-in-order", sig, log=src.log)


def body(ch, ctx):
    if ctx.shard[0] == "forms":
        body_forms(ch, ctx)
    elif ctx.shard[0] == "update":
        body_update(ch, ctx)
    else:
        body_inspect(ch, ctx)
