"""C10 -- update/delete histories leave exactly the modelled content; ids never recycle (E2 + fault enumeration)."""
import hashlib
import json
import os
import time

import gffutils
from gffutils.feature import feature_from_line

from gv.engine import history, report
from gv.model import battery, dbutil
from gv.model.refdb import RefDB, RefAbort, impl_state

ID = "C10"
RULE = (
    "Explicit-state BFS; the first event picks one of four initial file databases (GFF3 4-deep chain with directives, with / without an "
    "id-less feature, the chain with recorded duplicates, GTF with inference disabled), followed by up to 3 (quick) / 4 (thorough) "
    "events: GFF3 family 29 = 17 updates (9 bundles x merge strategies; one directive-only, one in another dialect), 6 deletes (id, "
    "Feature, list, generators of ids / Features), 4 add_relation (plain, with a parent and a child callback each marking its feature, "
    "with a child callback rewriting Parent, unknown ids), reopen, set_pragmas; GTF family 14 = 9 updates (5 bundles), 3 deletes, "
    "reopen, set_pragmas; quick omits 3 GFF3 updates and 2 GTF updates (26 / 12). Reads are interleaved before "
    "every event. Every reached state (deduplicated on features, relations, autoincrements, duplicates and the live id counters) is "
    "checked: features (row order) and relations against the reference model through a second connection; live connection equals file; "
    "dialect (live and reopened) and directives unchanged; filtered children, region per seqid, counts and look-ups of every id ever "
    "stored on the live object; stored bins follow the coordinates; library globals unchanged; a fixed battery of 23 kinds of read "
    "calls (also naming absent things), asked before the last (thorough: every) operation and after it, must be answered as by a "
    "freshly opened object; for a final update/delete the .bak file (a stale newer .bak is planted first) equals the pre-state. Two "
    "scale histories: 1000 of 1002 features deleted in one call, then an update; update() fed with merge() output and a long one-shot "
    "generator, then an id-less feature whose key must be new. Fault runs: from every representative state <= 2 events deep, update "
    "bundles B1-B4 (GTF: G2, G3) with the feature source raising after k = 0..n items: backup present and equal to the pre-state, "
    "failure not swallowed. Non-trivial = every distinct state except the empty root history."
)
ASSUMPTIONS = [
    "small-scope: histories up to the stated depth over the stated alphabet; 'randomly beyond' is not sampled",
    "after a failed operation only the .bak file is checked (the statement does not define the main file's content)",
    "add_relation between existing features is only issued when the triple is absent; add_relation naming an id that does not exist is expected to be refused (FeatureNotFoundError, as the look-up by id does) and to change nothing",
    "canonical state = rows of features (rowid order), relations, autoincrements, duplicates + the live object's in-memory counters; sqlite_stat1, indexes and the number of meta rows are dropped (no public query reads them)",
    "the feature an add_relation parent_func / child_func callback returns replaces the stored parent / child",
    "update() for the bundles B1, B3, B5, G1, G3 and delete(Feature) are called without make_backup and must still leave a .bak equal to the pre-state (the documented default is True)",
]

INIT = [
    "##gff-version 3",
    "##note kept across updates",
    "c1\ts\tgene\t1\t100\t.\t+\t.\tID=g1",
    "c1\ts\tmRNA\t1\t100\t.\t+\t.\tID=m1;Parent=g1",
    "c1\ts\texon\t1\t50\t.\t+\t.\tID=e1;Parent=m1",
    "c1\ts\tpart\t1\t10\t.\t+\t.\tID=p1;Parent=e1",
    "c1\ts\texon\t60\t70\t.\t+\t.\tParent=m1",
]
INIT_B = INIT[:6]      # every feature has an explicit ID: the database starts without any id counter
INIT_D = INIT_B + ["c1\ts\texon\t2\t200000\t.\t+\t.\tID=e1;Parent=g1;note=y"]       # imported with 'merge': e1 and e1_1 exist from the start
INIT_GTF = [
    'c1\ts\texon\t1\t50\t.\t+\t.\tgene_id "G1"; transcript_id "T1";',
    'c1\ts\texon\t60\t90\t.\t+\t.\tgene_id "G1"; transcript_id "T1";',
    'c1\ts\tCDS\t5\t40\t.\t+\t0\tgene_id "G1"; transcript_id "T1";',
]
INITS = {"I:chain+idless": INIT, "I:chain": INIT_B, "I:dups": INIT_D, "I:gtf": INIT_GTF}
GTF_KW = dict(disable_infer_genes=True, disable_infer_transcripts=True)
BUNDLES = {
    "B1": ["c2\ts\tgene\t200\t300\t.\t-\t.\tID=g2", "c2\ts\tncRNA\t200\t300\t.\t-\t.\tID=m2;Parent=g2"],     # new seqid, new featuretype
    "B2": ["c1\ts\texon\t20\t30\t.\t+\t.\tID=e9;Parent=m9", "c1\ts\tmRNA\t1\t90\t.\t+\t.\tID=m9;Parent=g1"],
    "B3": ["c1\ts\texon\t1\t50\t.\t+\t.\tID=e1;Parent=m1;note=x"],
    "B4": ["c1\ts\texon\t2\t200000\t.\t+\t.\tID=e1;Parent=g1;note=y"],        # other columns, other bin, other parent
    "B5": ["c1\ts\texon\t80\t90\t.\t+\t.\tParent=m1"],
    "B6": ["c1\ts\tpart\t2\t3\t.\t+\t.\tID=p2;Parent=p1"],
    "B7": ["##only a directive", "# and a comment"],
    # written in another (consistent) dialect than the database: '; ' separators and a trailing semicolon
    "B8": ["c3\ts\tgene\t400\t500\t.\t+\t.\tID=g8; Name=x,y;", "c3\ts\tmRNA\t400\t500\t.\t+\t.\tID=m8; Parent=g8; Name=z;"],
    "B9": ["c5\ts\tgene\t1\t9\t.\t+\t.\tID=g5"],            # nothing in it names a parent (second-level relations may still be due)
    # GTF family (database created and updated with inference disabled)
    "G1": ['c1\ts\texon\t100\t120\t.\t+\t.\tgene_id "G1"; transcript_id "T1";'],
    "G2": ['c1\ts\texon\t200\t220\t.\t+\t.\tgene_id "G1"; transcript_id "T2";', 'c1\ts\tCDS\t205\t210\t.\t+\t0\tgene_id "G1"; transcript_id "T2";'],
    "G3": ['c1\ts\ttranscript\t1\t90\t.\t+\t.\tgene_id "G1"; transcript_id "T1"; note "x";'],
    "G4": ['c1\ts\ttranscript\t1\t95\t.\t+\t.\tgene_id "G1"; transcript_id "T1"; note "y";'],
    "G5": ['c1\ts\tgene\t1\t300\t.\t+\t.\tgene_id "G1";'],
}
UPDATES = [("B1", "merge"), ("B1", "create_unique"), ("B2", "merge"),
           ("B3", "merge"), ("B3", "create_unique"), ("B3", "replace"), ("B3", "warning"),
           ("B4", "merge"), ("B4", "create_unique"), ("B4", "replace"), ("B4", "warning"),
           ("B5", "merge"), ("B6", "merge"), ("B6", "replace"), ("B7", "merge"), ("B8", "merge"), ("B9", "merge")]
GTF_UPDATES = [("G1", "merge"), ("G2", "merge"), ("G3", "merge"), ("G3", "create_unique"), ("G3", "replace"), ("G3", "warning"),
               ("G4", "merge"), ("G4", "replace"), ("G5", "merge")]
GTF_EVENTS = ["U:%s:%s" % u for u in GTF_UPDATES] + ["D:str:exon_1", "D:feat:T1", "D:list:CDS_1,exon_2"]
GFF_EVENTS = ["U:%s:%s" % u for u in UPDATES] + ["D:str:e1", "D:feat:m1", "D:list:p1,exon_1", "D:str:g1", "D:gen:e1,p1", "D:children:m1",
                                                  "A:plain", "A:rewrite", "A:mark", "A:unknown"]
EVENTS = list(INITS) + GFF_EVENTS + GTF_EVENTS + ["R", "P"]          # R = reopen, P = set_pragmas (changes nothing in the content)


# quick leaves out update events that have a close relative in the alphabet
QUICK_SKIP = {"U:B3:warning", "U:B1:create_unique", "U:G3:warning", "U:G3:create_unique", "U:B6:replace"}


def depth_of(tier):
    return 4 if tier == "quick" else 5      # the first event picks the initial database


def bounds(tier):
    return dict(events=[e for e in EVENTS if tier != "quick" or e not in QUICK_SKIP], depth=depth_of(tier), fault_bundles=["B1", "B2", "B3", "B4", "G2", "G3"], fault_state_depth=2)


def _clean(wdir):
    for n in os.listdir(wdir):
        try:
            os.unlink(os.path.join(wdir, n))
        except OSError:
            pass


def _key(path, db):
    c = dbutil.canon(path, attr_sets=True)
    live = sorted(dict(db._autoincrements).items())
    blob = json.dumps([c["features"], c["relations"], c["autoincrements"], c["duplicates"], live], sort_keys=True, default=str)
    return hashlib.blake2b(blob.encode(), digest_size=10).hexdigest(), c


def _canon_or_none(path):
    try:
        return dbutil.canon(path)
    except Exception:
        return None          # not even a database


def _globals_fingerprint():
    from gffutils import constants
    return json.dumps([constants.dialect, constants.default_pragmas, constants.always_return_list,
                       constants.ignore_url_escape_characters, constants._keys], sort_keys=True, default=str)


def enabled(ev, model):
    if ev.startswith("I:"):
        return False            # only as the very first event (handled in run_history)
    if ev.startswith("D:feat:"):
        return ev.split(":")[2] in model.feats
    if ev.startswith("D:children:"):
        return ev.split(":")[2] in model.feats
    if ev == "A:plain":
        return "g1" in model.feats and "p1" in model.feats and ("g1", "p1", 3) not in model.rels
    if ev == "A:mark":
        return "m1" in model.feats and "e1" in model.feats and ("m1", "e1", 7) not in model.rels
    if ev == "A:rewrite":
        return "e1" in model.feats and "exon_1" in model.feats and ("e1", "exon_1", 1) not in model.rels
    return True


def _mark_parent(parent, child):
    parent.attributes["marked"] = ["by-" + child.id]
    return parent


def _mark_child(parent, child):
    child.attributes["marked"] = ["under-" + parent.id]
    return child


def _set_parent(parent, child):
    child.attributes["Parent"] = [parent.id]
    return child


def apply_real(ev, db, path, wdir):
    """returns the (possibly new) FeatureDB object"""
    kind = ev.split(":")
    if kind[0] == "U":
        p = dbutil.write_text(wdir, "bundle.gff", "\n".join(BUNDLES[kind[1]]) + "\n")
        # every other bundle relies on the documented default (make_backup=True) instead of saying so
        bk = {} if kind[1] in ("B1", "B3", "B5", "G1", "G3") else dict(make_backup=True)
        db.update(p, merge_strategy=kind[2], verbose=False, **dict(bk, **(GTF_KW if kind[1].startswith("G") else {})))
    elif kind[0] == "D":
        if kind[1] == "str":
            db.delete(kind[2], make_backup=True)
        elif kind[1] == "feat":
            db.delete(db[kind[2]])                                                 # the documented default: a backup is made
        elif kind[1] == "gen":
            db.delete((x for x in kind[2].split(",")), make_backup=True)            # a one-shot generator of ids
        elif kind[1] == "children":
            db.delete(db.children(kind[2], level=1), make_backup=True)             # a generator of Feature objects
        else:
            db.delete(kind[2].split(","), make_backup=True)
    elif ev == "A:plain":
        db.add_relation("g1", "p1", 3)
    elif ev == "A:mark":
        db.add_relation("m1", "e1", 7, parent_func=_mark_parent, child_func=_mark_child)      # both callbacks: parent AND child are rewritten
    elif ev == "A:rewrite":
        db.add_relation("e1", "exon_1", 1, child_func=_set_parent)
    elif ev == "A:unknown":
        for args in (("no-such-parent", "g1", 1), ("g1", "no-such-child", 2)):
            try:
                db.add_relation(*args)
            except gffutils.FeatureNotFoundError:
                pass          # refused: nothing may change
    elif ev == "R":
        dbutil.close_db(db)
        db = gffutils.FeatureDB(path)
    elif ev == "P":
        db.set_pragmas({"cache_size": 2000, "synchronous": "NORMAL"})
    return db


def apply_model(ev, model):
    kind = ev.split(":")
    if kind[0] == "U":
        lines = [l for l in BUNDLES[kind[1]] if not l.startswith("#")]
        model.update(lines, kind[2])
    elif kind[0] == "D" and kind[1] == "children":
        model.delete(sorted(c for (p, c, lv) in model.rels if p == kind[2] and lv == 1))
    elif kind[0] == "D":
        model.delete(kind[2].split(","))
    elif ev == "A:plain":
        model.add_relation("g1", "p1", 3)
    elif ev == "A:mark":
        model.add_relation("m1", "e1", 7)
        model.feats["m1"]["attrs"]["marked"] = {"by-e1"}
        model.feats["e1"]["attrs"]["marked"] = {"under-m1"}
    elif ev == "A:rewrite":
        model.add_relation("e1", "exon_1", 1, set_parent_attr=True)


def run_scale(wdir):
    """One large history: 1000 exons under one mRNA, all deleted in a single delete() call, then a small update."""
    _clean(wdir)
    lines = ["c1\ts\tgene\t1\t9000\t.\t+\t.\tID=g1", "c1\ts\tmRNA\t1\t9000\t.\t+\t.\tID=m1;Parent=g1"]
    lines += ["c1\ts\texon\t%d\t%d\t.\t+\t.\tID=x%d;Parent=m1" % (1 + 9 * i, 5 + 9 * i, i) for i in range(1000)]
    path = os.path.join(wdir, "big.db")
    db = gffutils.create_db(dbutil.write_text(wdir, "big.gff", "\n".join(lines) + "\n"), path, verbose=False)
    model = RefDB()
    model.update(lines)
    viol = []
    try:
        ids = ["x%d" % i for i in range(1000)]
        db.delete(ids, make_backup=False)
        model.delete(ids)
        p = dbutil.write_text(wdir, "bundle.gff", "\n".join(BUNDLES["B5"]) + "\n")
        db.update(p, merge_strategy="merge", make_backup=False, verbose=False)
        model.update(BUNDLES["B5"], "merge")
        got = impl_state(dbutil.canon(path, attr_sets=True))
        exp = model.state()
        if got["features"] != exp["features"]:
            viol.append(dict(kind="features-differ-from-model", sig=dict(scale=True), detail=dict(n_got=len(got["features"]), n_expected=len(exp["features"]))))
        if got["relations"] != exp["relations"]:
            g, e = set(got["relations"]), set(exp["relations"])
            viol.append(dict(kind="relations-differ-from-model", sig=dict(scale=True, extra=bool(g - e), missing=bool(e - g)),
                             detail=dict(n_extra=len(g - e), n_missing=len(e - g), extra=sorted(g - e)[:5], missing=sorted(e - g)[:5])))
    finally:
        dbutil.close_db(db)
    return dict(status="violation" if viol else "ok", key=None, violations=viol, info=dict(scale="delete of 1000 ids in one call"))


def run_scale2(wdir):
    """A longer history with sources larger than the importer's peek window (checklines + 1 = 11 items): update fed lazily with
    14 merged features from merge() (which takes their ids from the object's counters), update fed with a one-shot generator
    of 13 features, then an update with an id-less feature, whose key must be new."""
    _clean(wdir)
    lines = ["c1\ts\tgene\t1\t9000\t.\t+\t.\tID=g1", "c1\ts\tmRNA\t1\t9000\t.\t+\t.\tID=m1;Parent=g1",
             "c1\ts\texon\t8000\t8010\t.\t+\t.\tParent=m1"]                      # the id-less one becomes exon_1
    for i in range(14):
        lines.append("c1\ts\texon\t%d\t%d\t.\t+\t.\tID=a%d;Parent=m1" % (100 * i + 1, 100 * i + 30, i))
        lines.append("c1\ts\texon\t%d\t%d\t.\t+\t.\tID=b%d;Parent=m1" % (100 * i + 20, 100 * i + 50, i))
    path = os.path.join(wdir, "s2.db")
    db = gffutils.create_db(dbutil.write_text(wdir, "s2.gff", "\n".join(lines) + "\n"), path, verbose=False)
    viol = []

    def ids():
        return [r[0] for r in dbutil.canon(path)["features"]]

    try:
        keys0 = ids()
        pairs = [db[x] for i in range(14) for x in ("a%d" % i, "b%d" % i)]
        db.update(db.merge(pairs), make_backup=False, verbose=False)            # a generator, consumed by the importer
        keys1 = ids()
        merged = [k for k in keys1 if k not in keys0]
        ext = sorted((db[k].start, db[k].end) for k in merged)
        if len(merged) != 14 or ext != [(100 * i + 1, 100 * i + 50) for i in range(14)]:
            viol.append(dict(kind="features-differ-from-model", sig=dict(scale=True, step="update(merge(...))"),
                             detail=dict(new_keys=merged, extents=ext[:4], expected="14 merged exons 1..50, 101..150, ...")))
        new = ["c2\ts\tgene\t%d\t%d\t.\t-\t.\tID=n%d" % (10 * i + 1, 10 * i + 5, i) for i in range(13)]
        db.update((feature_from_line(t) for t in new), make_backup=False, verbose=False)      # one-shot, longer than the peek window
        keys2 = ids()
        lost = [("n%d" % i) for i in range(13) if ("n%d" % i) not in keys2]
        if lost or len(keys2) != len(keys1) + 13:
            viol.append(dict(kind="features-differ-from-model", sig=dict(scale=True, step="update(generator of 13)"),
                             detail=dict(missing=lost, n_before=len(keys1), n_after=len(keys2))))
        p = dbutil.write_text(wdir, "last.gff", "c1\ts\texon\t8500\t8510\t.\t+\t.\tParent=m1\n")
        try:
            db.update(p, make_backup=False, verbose=False)
            keys3 = ids()
            fresh = [k for k in keys3 if k not in keys2]
            if len(fresh) != 1 or len(keys3) != len(keys2) + 1 or (db[fresh[0]].start, db[fresh[0]].end) != (8500, 8510):
                viol.append(dict(kind="generated-key-equals-a-key-handed-out-earlier", sig=dict(scale=True),
                                 detail=dict(new_keys=fresh, n_before=len(keys2), n_after=len(keys3), merged_keys=merged)))
            if (db["exon_1"].start, db["exon_1"].end) != (8000, 8010):
                viol.append(dict(kind="features-differ-from-model", sig=dict(scale=True, step="earlier id-less feature changed"), detail={}))
        except Exception as e:
            viol.append(dict(kind="generated-key-equals-a-key-handed-out-earlier", sig=dict(scale=True, raised=type(e).__name__),
                             detail=dict(message=str(e)[:200], merged_keys=merged)))
    except Exception as e:
        import traceback
        viol.append(dict(kind="operation-raised", sig=dict(scale=True, exc=type(e).__name__), detail=dict(message=str(e)[:300], traceback=traceback.format_exc()[-800:])))
    finally:
        dbutil.close_db(db)
    return dict(status="violation" if viol else "ok", key=None, violations=viol, info=dict(scale="sources longer than the peek window"))


_FRESH = {}
QUICK_POPULATE_ALL = False      # set by run(): thorough populates before every operation, quick before the last one


def run_history(h, wdir, tag="bfs"):
    if isinstance(tag, tuple) and tag[0] == "scale":
        return run_scale(wdir) if tag[1] == "delete1000" else run_scale2(wdir)
    _clean(wdir)
    if not h:
        return dict(status="ok", key="root", violations=[], info=dict(root=True))
    if h[0] not in INITS:
        return dict(status="disabled", key=None, violations=[], info=None)
    gtf = h[0] == "I:gtf"
    family = GTF_EVENTS if gtf else GFF_EVENTS
    if any(ev not in ("R", "P") and ev not in family for ev in h[1:]):
        return dict(status="disabled", key=None, violations=[], info=None)
    init, h_full, h = INITS[h[0]], h, h[1:]
    path = os.path.join(wdir, "h.db")
    src = dbutil.write_text(wdir, "init.gff", "\n".join(init) + "\n")
    ckw = dict(GTF_KW) if gtf else {}
    if h_full[0] == "I:dups":
        ckw["merge_strategy"] = "merge"
    db = gffutils.create_db(src, path, verbose=False, **ckw)
    model = RefDB("gtf" if gtf else "gff3")
    model.update([l for l in init if not l.startswith("#")], "merge" if h_full[0] == "I:dups" else "error")
    directives0 = [l[2:] for l in init if l.startswith("##")]
    dialect0 = json.dumps(db.dialect, sort_keys=True)
    globals0 = _globals_fingerprint()
    fault = tag if isinstance(tag, tuple) and tag[0] == "fault" else None
    viol = []
    info = None
    n = len(h)
    ever = set(model.feats)

    fam = "gtf" if gtf else "gff3"

    def touch(populate=False):
        # ordinary reads between the operations (they must never change what later reads see)
        db.count_features_of_type("exon")
        db.count_features_of_type()
        for fid in list(model.feats)[:4]:
            db[fid]
        for fid in list(model.feats)[:2]:
            list(db.children(fid, featuretype="exon"))
            list(db.parents(fid, featuretype=("gene", "mRNA")))
        list(db.region(seqid="c1", start=1, end=60))
        list(db.featuretypes()), list(db.seqids())
        if populate:
            # the fixed battery (it names things that do not exist yet): whatever the object memoises gets populated
            battery.battery(db, fam, light=True)

    try:
        for i, ev in enumerate(h):
            last = i == n - 1 and fault is None
            touch(populate=last or QUICK_POPULATE_ALL)
            if not enabled(ev, model):
                return dict(status="disabled", key=None, violations=[], info=None)
            pre = None
            backs_up = ev[0] in "UD"
            if last and backs_up:
                pre = dbutil.canon(path)
                # an unrelated, newer-looking '.bak' is already lying next to the database
                with open(path + ".bak", "wb") as fh:
                    fh.write(b"stale backup")
                future = time.time() + 3600
                os.utime(path + ".bak", (future, future))
            try:
                db = apply_real(ev, db, path, wdir)
            except Exception as e:
                return dict(status="violation", key=None, info=None, violations=[dict(
                    kind="operation-raised", sig=dict(event=ev.split(":")[0], exc=type(e).__name__),
                    detail=dict(history=list(h), event=ev, message=str(e)[:300]))])
            apply_model(ev, model)
            ever |= set(model.feats)
            if last and backs_up:
                bak = path + ".bak"
                if not os.path.exists(bak):
                    viol.append(dict(kind="backup-missing", sig=dict(event=ev.split(":")[0]), detail=dict(history=list(h))))
                elif _canon_or_none(bak) != pre:
                    viol.append(dict(kind="backup-differs-from-pre-operation-state", sig=dict(event=ev.split(":")[0]),
                                     detail=dict(history=list(h))))
        if fault is not None:
            return run_fault(h, fault, db, path, wdir)
        key, c = _key(path, db)
        got = impl_state(c)
        exp = model.state()
        live = impl_state(dbutil.canon(db, attr_sets=True))
        sig = dict(last_event=":".join(h[-1].split(":")[:1] + h[-1].split(":")[2:3]) if h else "init")
        h = h_full
        if got["features"] != exp["features"]:
            gi = [f[0] for f in got["features"]]
            ei = [f[0] for f in exp["features"]]
            sub = "ids" if gi != ei else "content"
            bad = [(a, b) for a, b in zip(got["features"], exp["features"]) if a != b][:2]
            viol.append(dict(kind="features-differ-from-model", sig=dict(sig, what=sub), detail=dict(
                history=list(h), got_ids=gi, expected_ids=ei, first_difference=bad)))
        soft = exp.get("soft", set())
        if set(got["relations"]) - soft != set(exp["relations"]):
            g, e = set(got["relations"]) - soft, set(exp["relations"])
            viol.append(dict(kind="relations-differ-from-model",
                             sig=dict(sig, extra=bool(g - e), missing=bool(e - g), levels=",".join(sorted({str(x[2]) for x in g ^ e}))),
                             detail=dict(history=list(h), extra=sorted(g - e), missing=sorted(e - g))))
        if live != got:
            viol.append(dict(kind="live-connection-differs-from-file", sig=sig, detail=dict(history=list(h))))
        # the dialect the database was created with stays what is reported, live and after reopening
        re = gffutils.FeatureDB(path)
        if json.dumps(db.dialect, sort_keys=True) != dialect0 or json.dumps(re.dialect, sort_keys=True) != dialect0:
            viol.append(dict(kind="database-dialect-changed-by-history", sig=sig,
                             detail=dict(history=list(h), original=dialect0, live=db.dialect, reopened=re.dialect)))
        if list(re.directives) != directives0:
            viol.append(dict(kind="directives-changed-by-history", sig=sig, detail=dict(history=list(h), original=directives0, reopened=list(re.directives))))
        # differential without an expectation: the object that lived through the history answers a fixed battery of
        # read calls exactly like an object freshly opened on the same file
        fkey = (key, json.dumps(re.dialect, sort_keys=True), tuple(re.directives))
        if fkey not in _FRESH:                    # a function of the file's content only
            if len(_FRESH) > 20000:
                _FRESH.clear()
            _FRESH[fkey] = battery.battery(re, fam)
        dbutil.close_db(re)
        d = battery.diff(battery.battery(db, fam), _FRESH[fkey])
        if d:
            viol.append(dict(kind="live-object-answers-differ-from-freshly-opened-object", sig=dict(sig, call=sorted(d)[0]),
                             detail=dict(history=list(h), differing=d)))
        # filtered relation queries and region queries through the live object
        ftypes = sorted({f["cols"]["featuretype"] for f in model.feats.values()})
        for fid in list(model.feats):
            for t in ftypes:
                want = sorted({c for (p, c, lv) in model.rels if p == fid and c in model.feats and model.feats[c]["cols"]["featuretype"] == t} - set([fid]))
                got_c = sorted(f.id for f in db.children(fid, featuretype=t))
                if got_c != want and not (exp.get("soft")):
                    viol.append(dict(kind="live-filtered-children-differ", sig=sig, detail=dict(history=list(h), id=fid, featuretype=t, got=got_c, expected=want)))
        for sq in sorted({f["cols"]["seqid"] for f in model.feats.values()}):
            want = sorted(i for i, f in model.feats.items() if f["cols"]["seqid"] == sq)
            got_r = sorted(f.id for f in db.region(seqid=sq))
            if got_r != want:
                viol.append(dict(kind="live-region-differs", sig=sig, detail=dict(history=list(h), seqid=sq, got=got_r, expected=want)))
        # every stored row carries the bin of its current coordinates
        from gv.model import bins_ref
        for row in c["features"]:
            st, en, b = row[4], row[5], row[11]
            if st is None or en is None:
                continue
            want = bins_ref.OFFS[bins_ref.smallest_level_containing(st - 1, en)] + ((st - 1) >> bins_ref.SHIFTS[bins_ref.smallest_level_containing(st - 1, en)])
            if b != want:
                viol.append(dict(kind="stored-bin-differs-from-coordinates", sig=sig, detail=dict(history=list(h), id=row[0], start=st, end=en,
                                                                                               bin=b, expected=want)))
        if _globals_fingerprint() != globals0:
            viol.append(dict(kind="library-global-state-changed", sig=sig, detail=dict(history=list(h), before=globals0, after=_globals_fingerprint())))
        # the live object's own answers (counts, keyed look-ups) after the history
        types = {}
        for fid, f in model.feats.items():
            types[f["cols"]["featuretype"]] = types.get(f["cols"]["featuretype"], 0) + 1
        for t in list(types) + ["exon", "nosuchtype"]:
            c = db.count_features_of_type(t)
            if c != types.get(t, 0) or c != len(list(db.features_of_type(t))):
                viol.append(dict(kind="live-count-differs", sig=dict(sig), detail=dict(history=list(h), featuretype=t, count=c,
                                                                                      expected=types.get(t, 0))))
        if db.count_features_of_type() != len(model.feats):
            viol.append(dict(kind="live-count-differs", sig=dict(sig), detail=dict(history=list(h), featuretype=None,
                                                                                  count=db.count_features_of_type(), expected=len(model.feats))))
        for fid in sorted(ever):
            try:
                f = db[fid]
                if fid not in model.feats:
                    viol.append(dict(kind="lookup-finds-deleted-feature", sig=dict(sig), detail=dict(history=list(h), id=fid)))
                elif (f.start, f.end, f.featuretype) != (model.feats[fid]["cols"]["start"], model.feats[fid]["cols"]["end"],
                                                         model.feats[fid]["cols"]["featuretype"]):
                    viol.append(dict(kind="lookup-returns-stale-feature", sig=dict(sig), detail=dict(history=list(h), id=fid, got=str(f))))
            except gffutils.FeatureNotFoundError:
                if fid in model.feats:
                    viol.append(dict(kind="lookup-misses-stored-feature", sig=dict(sig), detail=dict(history=list(h), id=fid)))
        info = dict(n_features=len(got["features"]), n_relations=len(got["relations"]), auto_keys=len(model.handed_out))
        if len(set(model.handed_out)) != len(model.handed_out):
            viol.append(dict(kind="model-handed-out-key-twice", sig=None, detail=dict(keys=model.handed_out)))
        if viol:
            return dict(status="violation", key=key, violations=viol, info=info)
        return dict(status="ok", key=key, violations=[], info=info)
    finally:
        dbutil.close_db(db)


class Boom(Exception):
    pass


def run_fault(h, fault, db, path, wdir):
    _, bundle, k = fault
    lines = BUNDLES[bundle]

    def source():
        for i, t in enumerate(lines):
            if i == k:
                raise Boom("source failed after %d items" % k)
            yield feature_from_line(t)

    pre = dbutil.canon(path)
    with open(path + ".bak", "wb") as fh:
        fh.write(b"stale backup")
    future = time.time() + 3600
    os.utime(path + ".bak", (future, future))
    raised = None
    try:
        db.update(source(), merge_strategy="merge", make_backup=True, verbose=False, **(GTF_KW if bundle.startswith("G") else {}))
    except Boom as e:
        raised = "Boom"
    except Exception as e:
        raised = type(e).__name__
    viol = []
    sig = dict(bundle=bundle, fault_after=k, raised=raised)
    bak = path + ".bak"
    if not os.path.exists(bak):
        viol.append(dict(kind="backup-missing-after-failed-update", sig=dict(fault_position=min(k, 2)),
                         detail=dict(history=list(h), **sig)))
    elif _canon_or_none(bak) != pre:
        viol.append(dict(kind="backup-differs-from-pre-operation-state", sig=dict(event="U", fault=True),
                         detail=dict(history=list(h), **sig)))
    if k < len(lines) and raised is None:
        viol.append(dict(kind="source-failure-swallowed", sig=None, detail=dict(history=list(h), **sig)))
    return dict(status="violation" if viol else "ok", key=None, violations=viol, info=dict(fault=True, raised=raised, k=k))


def run(tier, seed):
    global QUICK_POPULATE_ALL
    t0 = time.time()
    depth = depth_of(tier)
    QUICK_POPULATE_ALL = tier != "quick"

    def extra(reps):
        items = [(("scale", "delete1000"), ("I:chain",)), (("scale", "long-sources"), ("I:chain",))]
        for d in (1, 2, 3):
            for h in reps.get(d, []):
                for b in (("G2", "G3") if h and h[0] == "I:gtf" else ("B1", "B2", "B3", "B4")):
                    for k in range(len(BUNDLES[b]) + 1):
                        items.append((("fault", b, k), h))
        return items

    events = [e for e in EVENTS if tier != "quick" or e not in QUICK_SKIP]
    res = history.bfs(run_history, events, depth, seed=seed, extra=extra, progress=bool(os.environ.get("GV_PROGRESS")))

    def confirm(v):
        tag = tuple(v["tag"]) if isinstance(v.get("tag"), (list, tuple)) else "bfs"
        return history.replay_isolated(run_history, tuple(v["history"]), tag, v["kind"])

    return report.conclude(
        ID, tier, seed, states=res.states, transitions=res.transitions, executions=res.histories + res.extra_runs,
        nontrivial=max(res.states - 1, 0), outcomes=len(res.outcomes), samples=res.samples,
        rule=RULE, assumptions=ASSUMPTIONS, bounds=bounds(tier), exhaustive=True, wall=time.time() - t0,
        violations=res.violations, replay_confirm=confirm,
        extra=dict(histories_replayed=res.histories, fault_runs=res.extra_runs, per_level=res.per_level, max_depth=res.maxdepth,
                   disabled_events=res.disabled, ended_histories=res.ended,
                   distinct_states_note="distinct canonical states after deduplication; transitions = enabled (state, event) pairs executed"))


def replay(path, tier, seed):
    import tempfile

    with open(path) as fh:
        v = json.load(fh)
    d = tempfile.mkdtemp(prefix="gv-replay-")
    try:
        tag = tuple(v["tag"]) if isinstance(v.get("tag"), list) else "bfs"
        r = run_history(tuple(v["history"]), d, tag)
    finally:
        import shutil

        shutil.rmtree(d, ignore_errors=True)
    print("replayed history %r tag=%r -> %s" % (v["history"], v.get("tag"), r["status"]))
    for x in r["violations"]:
        print("VIOLATION property=%s replay=%s" % (ID, path))
        print("   kind=%s detail=%s" % (x["kind"], json.dumps(x.get("detail"), default=str)[:2000]))
    return 1 if r["violations"] else 0
