"""C03 -- GTF import infers exact gene/transcript extents and the three-level hierarchy (E1)."""
import os

import gffutils

from gv.model import dbutil

ID = "C03"
RULE = (
    "Part 'struct' (shards = structure shape {1 gene x 1 transcript, 1 gene x 2 transcripts, 2 genes x 1 transcript each} x exon set of "
    "the first transcript (7 quick / 9 thorough options incl. none/nested/reordered/starting at 0) x config x strand of the first gene "
    "(+/-; the second gene has the other strand and another seqid) x explicit lines {none, gene, transcript, both}): configs = default "
    "keys x the four disable_infer_* combinations, plus custom gtf keys/subfeature with id_spec (quick: flags off; thorough: all four). "
    "Inside a shard: line order (quick 3: identity, reversed, interleaved; thorough 6: plus two rotations and by-start) x exon set of "
    "every further transcript (quick: the first 6 options) x per transcript an extra line (none, CDS 1-9; thorough also start_codon "
    "2-3; for the very first transcript also a 'promoter' line with the gene's id but no transcript id: a level-2 child of its gene "
    "only). The first gene's id contains a blank; the file name rotates over in.gtf/annot.gff/x.gff3/data.txt. An empty file is "
    "skipped. Real create_db (identity order: a file database, reopened first; else :memory:); checked: fmt is gtf, stored id set, "
    "columns of stored and derived features, derived features retrievable, the stored bin of every feature (derived ones included) equal to the bin of its coordinates, and every children/parents answer at levels 1, 2, None "
    "against a reference derivation (no duplicates, no feature its own relative; explicit transcript as level-2 child of its gene "
    "accepted either way). Identity order with default keys: a later update() adding a new gene must not raise or change earlier "
    "features; its extents, new-feature count and children are checked. Part 'scale' (3 executions): a shuffled 2400-line GTF (400 "
    "genes x 3 transcripts x 2 exons) under 3 flag settings; all 1200 transcript / 400 gene extents and the exon count are checked. "
    "Non-trivial = some transcript has >= 2 exons or none, or lines are reordered, or explicit gene/transcript lines exist, or a "
    "flag/custom key is set; every scale execution."
)
ASSUMPTIONS = [
    "all exons of a gene share seqid and strand; every exon / CDS line carries both ids; a transcript belongs to one gene",
    "whether an explicit transcript line is also a level-2 child of its gene is not demanded (accepted either way)",
    "explicit gene/transcript lines differ from the derived feature in some column (their end coordinate), so no attribute merge is expected",
    "the later update() is only made with the default keys (update() takes the importer's own option names for custom keys, not create_db's)",
    "a line naming a gene but no transcript (the 'promoter' option) is a level-2 child of that gene and is related to no transcript; it does not count for any extent",
]

EXON_OPTS_Q = ((), ((1, 2),), ((1, 2), (5, 6)), ((1, 6), (3, 3)), ((5, 6), (1, 2)), ((2, 4), (3, 3), (5, 6)), ((0, 2), (5, 6)))    # last: starts at 0
EXON_OPTS_T = EXON_OPTS_Q + (((2, 4), (3, 5)), ((4, 4),))
EXTRA_Q = (None, ("CDS", 1, 9), ("promoter", 1, 2, "gene_only"))       # the last carries the gene's id but no transcript id
EXTRA_T = (None, ("CDS", 1, 9), ("start_codon", 2, 3), ("promoter", 1, 2, "gene_only"))
ORDERS_Q = ("identity", "reversed", "interleave")
ORDERS_T = ORDERS_Q + ("rot1", "rot-1", "bystart")
EXPLICIT = ("none", "gene", "transcript", "both")
SHAPES = ((1,), (2,), (1, 1))        # transcripts per gene


def configs(tier):
    out = [("default", a, b) for a in (False, True) for b in (False, True)]
    out.append(("custom", False, False))
    if tier != "quick":
        out += [("custom", True, False), ("custom", False, True), ("custom", True, True)]
    return out


def bounds(tier):
    q = tier == "quick"
    return dict(shapes=[list(s) for s in SHAPES], exon_options=len(EXON_OPTS_Q if q else EXON_OPTS_T),
                extra_line_options=len(EXTRA_Q if q else EXTRA_T), orders=list(ORDERS_Q if q else ORDERS_T),
                explicit=list(EXPLICIT), configs=[list(c) for c in configs(tier)], strands=["+", "-"])


def shards(tier):
    q = tier == "quick"
    ne = len(EXON_OPTS_Q if q else EXON_OPTS_T)
    out = []
    for si in range(len(SHAPES)):
        for e0 in range(ne):
            for ci in range(len(configs(tier))):
                for st in "+-":
                    for ex in EXPLICIT:
                        out.append((si, e0, ci, st, ex))
    out.append(("scale", 0, 0, "+", "none"))
    return out


def reorder(lines, how):
    n = len(lines)
    if how == "identity":
        return list(lines)
    if how == "reversed":
        return list(reversed(lines))
    if how == "rot1":
        return lines[1:] + lines[:1]
    if how == "rot-1":
        return lines[-1:] + lines[:-1]
    if how == "interleave":
        return lines[0::2] + lines[1::2]
    if how == "bystart":
        return sorted(lines, key=lambda l: (l["start"], l["end"], l["ft"]))
    raise ValueError(how)


def body_scale(ch, ctx):
    """400 genes x 3 transcripts x 2 exons (1200 transcripts), every derived extent checked."""
    dis_g, dis_t = ch.choose("flags", ((False, False), (True, False), (False, True)))
    texts = []
    for g in range(400):
        for t in range(3):
            for e in range(2):
                st = 1 + 1000 * g + 100 * t + 30 * e
                texts.append('c1\ts\texon\t%d\t%d\t.\t+\t.\tgene_id "G%04d"; transcript_id "G%04d.t%d";' % (st, st + 9, g, g, t))
    texts = [texts[(i * 1009) % len(texts)] for i in range(len(texts))]
    path = dbutil.write_text(ctx.fresh_dir(), "big.gtf", "\n".join(texts) + "\n")
    db = gffutils.create_db(path, ":memory:", verbose=False, disable_infer_genes=dis_g, disable_infer_transcripts=dis_t)
    ctx.sample(lambda: dict(scale="400 genes x 3 transcripts x 2 exons", disable_infer_genes=dis_g, disable_infer_transcripts=dis_t))
    ctx.nontrivial()
    ctx.outcome(("scale", dis_g, dis_t))
    sig = dict(scale=True, disable_genes=dis_g, disable_transcripts=dis_t)
    tx = {f.id: (f.start, f.end) for f in db.features_of_type("transcript")}
    gn = {f.id: (f.start, f.end) for f in db.features_of_type("gene")}
    exp_tx = {} if dis_t else {"G%04d.t%d" % (g, t): (1 + 1000 * g + 100 * t, 1 + 1000 * g + 100 * t + 39) for g in range(400) for t in range(3)}
    exp_gn = {} if dis_g else {"G%04d" % g: (1 + 1000 * g, 1 + 1000 * g + 239) for g in range(400)}
    missing = sorted(set(exp_tx) - set(tx))
    ctx.check(tx == exp_tx, "derived-transcripts-differ-at-scale", sig, n_got=len(tx), n_expected=len(exp_tx), missing=missing[:5],
              wrong=[k for k in exp_tx if k in tx and tx[k] != exp_tx[k]][:5])
    ctx.check(gn == exp_gn, "derived-genes-differ-at-scale", sig, n_got=len(gn), n_expected=len(exp_gn))
    ctx.check(db.count_features_of_type("exon") == 2400, "exon-count-differs-at-scale", sig, got=db.count_features_of_type("exon"))


def body(ch, ctx):
    if ctx.shard[0] == "scale":
        return body_scale(ch, ctx)
    si, e0, ci, strand1, explicit = ctx.shard
    q = ctx.tier == "quick"
    exon_opts = EXON_OPTS_Q if q else EXON_OPTS_T
    extras = EXTRA_Q if q else EXTRA_T
    keys, dis_g, dis_t = configs(ctx.tier)[ci]
    tk, gk, sub = ("transcript_id", "gene_id", "exon") if keys == "default" else ("tx", "gn", "part")
    shape = SHAPES[si]
    order = ch.choose("order", ORDERS_Q if q else ORDERS_T)
    lines = []
    tx = []          # (tid, gid, exons(list of abs intervals))
    first = True
    for gi, nt in enumerate(shape):
        gid = "g %d" % (gi + 1) if gi == 0 else "g%d" % (gi + 1)        # the first gene's id contains a blank
        off = 100 * gi
        seqid = "c%d" % (gi + 1)
        strand = strand1 if gi == 0 else ("-" if strand1 == "+" else "+")
        glines = []
        gtx = []
        for ti in range(nt):
            tid = "%st%d" % (gid, ti + 1)
            if first:
                ex = exon_opts[e0]
                first = False
            else:
                ex = ch.choose("exons_%s" % tid, exon_opts[:6] if q else exon_opts)     # quick: the start-0 set only as the first transcript
            # (the gene-only line is an option of the very first transcript only, to keep the product affordable)
            extra = ch.choose("extra_%s" % tid, extras if (gi == 0 and ti == 0) else [x for x in extras if not (x and len(x) > 3)])
            toff = off + 10 * ti
            exs = []
            for (s, e) in ex:
                exs.append((s + toff, e + toff))
                glines.append(dict(ft=sub, seqid=seqid, start=s + toff, end=e + toff, strand=strand, t=tid, g=gid))
            if extra:
                glines.append(dict(ft=extra[0], seqid=seqid, start=extra[1] + toff, end=extra[2] + toff, strand=strand,
                                   t=None if len(extra) > 3 else tid, g=gid, gene_only=len(extra) > 3))
            gtx.append((tid, gid, exs, bool(ex) or bool(extra)))
        if explicit in ("transcript", "both"):
            for tid, _, exs, _any in gtx:
                s = min([a for a, b in exs], default=1 + off)
                e = max([b for a, b in exs], default=9 + off) + 1
                glines.insert(0, dict(ft="transcript", seqid=seqid, start=s, end=e, strand=strand, t=tid, g=gid, explicit="t"))
        if explicit in ("gene", "both"):
            allx = [iv for _, _, exs, _ in gtx for iv in exs]
            s = min([a for a, b in allx], default=1 + off)
            e = max([b for a, b in allx], default=9 + off) + 2
            glines.insert(0, dict(ft="gene", seqid=seqid, start=s, end=e, strand=strand, t=None, g=gid, explicit="g"))
        lines.extend(glines)
        tx.extend(gtx)
    if not lines:
        ctx.outcome("empty")
        return
    lines = reorder(lines, order)
    # ---- render
    texts = []
    for l in lines:
        attrs = '%s "%s";' % (gk, l["g"])
        if l["t"]:
            attrs += ' %s "%s";' % (tk, l["t"])
        texts.append("\t".join([l["seqid"], "s", l["ft"], str(l["start"]), str(l["end"]), ".", l["strand"], ".", attrs]))
    # ---- reference derivation
    counters = {}
    for l in lines:
        if l["ft"] == "gene":
            l["id"] = l["g"]
        elif l["ft"] == "transcript":
            l["id"] = l["t"]
        else:
            counters[l["ft"]] = counters.get(l["ft"], 0) + 1
            l["id"] = "%s_%d" % (l["ft"], counters[l["ft"]])
    exp = {}          # id -> (ft, seqid, start, end, strand)
    for l in lines:
        exp[l["id"]] = (l["ft"], l["seqid"], l["start"], l["end"], l["strand"])
    explicit_ids = {l["id"] for l in lines if l.get("explicit")}
    derived = {}
    by_t, by_g = {}, {}
    for l in lines:
        if l["ft"] == sub:
            by_t.setdefault(l["t"], []).append(l)
            by_g.setdefault(l["g"], []).append(l)
    if not dis_t:
        for tid, ls in by_t.items():
            if tid not in explicit_ids:
                derived[tid] = ("transcript", ls[0]["seqid"], min(x["start"] for x in ls), max(x["end"] for x in ls), ls[0]["strand"])
    if not dis_g:
        for gid, ls in by_g.items():
            if gid not in explicit_ids:
                derived[gid] = ("gene", ls[0]["seqid"], min(x["start"] for x in ls), max(x["end"] for x in ls), ls[0]["strand"])
    exp.update(derived)
    # relations (reference): line -> transcript (1), line -> gene (2), transcript -> gene (1)
    rel = set()
    soft = set()     # not demanded either way
    for l in lines:
        if l.get("explicit") == "g":
            continue
        if l.get("explicit") == "t":
            rel.add((l["g"], l["t"], 1))
            soft.add((l["g"], l["t"], 2))
            continue
        if l.get("gene_only"):
            rel.add((l["g"], l["id"], 2))        # a line of the gene that belongs to no transcript: a level-2 child of its gene
            continue
        rel.add((l["t"], l["id"], 1))
        rel.add((l["g"], l["id"], 2))
        rel.add((l["g"], l["t"], 1))
    rel = {(p, c, lv) for (p, c, lv) in rel if p in exp and c in exp}
    soft = {(p, c, lv) for (p, c, lv) in soft if p in exp and c in exp}

    multi = any(len(ls) >= 2 for ls in by_t.values()) or any(not exs for _, _, exs, _ in tx)
    ctx.nontrivial(multi or order != "identity" or explicit != "none" or dis_g or dis_t or keys != "default")
    ctx.sample(lambda: dict(config=[keys, dis_g, dis_t], explicit=explicit, order=order, file=texts,
                            expected_derived={k: list(v) for k, v in derived.items()}))
    ctx.outcome((si, len(derived), explicit, dis_g, dis_t, keys, order != "identity"))
    sig = dict(explicit=explicit, keys=keys, disable_genes=dis_g, disable_transcripts=dis_t)

    kw = dict(disable_infer_genes=dis_g, disable_infer_transcripts=dis_t, verbose=False)
    if keys != "default":
        kw.update(gtf_transcript_key=tk, gtf_gene_key=gk, gtf_subfeature=sub, id_spec={"gene": gk, "transcript": tk})
    path = dbutil.write_text(ctx.fresh_dir(), ("in.gtf", "annot.gff", "x.gff3", "data.txt")[(ci + si) % 4], "\n".join(texts) + "\n")
    if order == "identity":
        # a file database, closed and opened again before anything is asked: what is derived must have been stored
        dbfn = os.path.join(os.path.dirname(path), "o.db")
        dbutil.close_db(gffutils.create_db(path, dbfn, **kw))
        db = gffutils.FeatureDB(dbfn)
    else:
        db = gffutils.create_db(path, ":memory:", **kw)
    got = {f.id: (f.featuretype, f.seqid, f.start, f.end, f.strand) for f in db.all_features()}
    if not ctx.check(db.dialect["fmt"] == "gtf", "not-imported-as-gtf", sig, file=texts):
        return
    missing = sorted(set(exp) - set(got))
    extra = sorted(set(got) - set(exp))
    ctx.check(not missing, "expected-feature-missing", dict(sig, derived=any(m in derived for m in missing)), file=texts, missing=missing)
    ctx.check(not extra, "unexpected-feature", sig, file=texts, extra=extra, extra_rows=[got[e] for e in extra])
    for k_, v in exp.items():
        if k_ in got and got[k_] != v:
            ctx.fail("feature-columns-differ", dict(sig, derived=k_ in derived, explicit_line=k_ in explicit_ids), file=texts, id=k_,
                     got=got[k_], expected=v)
    from gv.model import bins_ref
    for fid, st, en, b in db.execute("SELECT id, start, end, bin FROM features").fetchall():
        if st is None or en is None or st < 1:
            continue
        lvl = bins_ref.smallest_level_containing(st - 1, en)
        want_bin = bins_ref.OFFS[lvl] + ((st - 1) >> bins_ref.SHIFTS[lvl])
        ctx.check(b == want_bin, "stored-bin-differs-from-coordinates", dict(sig, derived=fid in derived), file=texts, id=fid, start=st, end=en,
                  bin=repr(b)[:60], expected=want_bin)
    for k_ in derived:
        try:
            db[k_]
        except gffutils.FeatureNotFoundError:
            ctx.fail("derived-feature-not-retrievable", sig, file=texts, id=k_)
    # relations through the public queries
    for x in sorted(set(exp) & set(got)):
        for level in (1, 2, None):
            for which in ("children", "parents"):
                res = [f.id for f in getattr(db, which)(x, level=level)]
                if which == "children":
                    e = {c for (p, c, lv) in rel if p == x and (level is None or lv == level)}
                    s = {c for (p, c, lv) in soft if p == x and (level is None or lv == level)}
                else:
                    e = {p for (p, c, lv) in rel if c == x and (level is None or lv == level)}
                    s = {p for (p, c, lv) in soft if c == x and (level is None or lv == level)}
                if x in res:
                    ctx.fail("feature-is-its-own-relative", dict(sig, which=which, level=level, explicit_line=x in explicit_ids),
                             file=texts, id=x, result=res)
                    res = [r for r in res if r != x]
                ok = len(res) == len(set(res)) and (set(res) - s) == (e - s)
                if not ok:
                    ctx.fail("%s-differ" % which, dict(sig, level=level), file=texts, id=x, got=sorted(res), expected=sorted(e),
                             optional=sorted(s))
    # ---- a later update() bringing a brand-new gene (identity order only, to keep the product affordable): the same derivation
    # rules apply to it, and nothing stored before changes
    if order != "identity" or keys != "default":
        return          # (update() takes the importer's own option names for custom keys, not create_db's: not part of this statement)
    before = {f.id: str(f) for f in db.all_features()}
    new_lines = []
    if explicit in ("gene", "both"):
        new_lines.append(("gene", 300, 332, None))
    if explicit in ("transcript", "both"):
        new_lines.append(("transcript", 300, 331, "g9t1"))
    new_lines += [(sub, 300, 310, "g9t1"), (sub, 320, 330, "g9t1"), ("CDS", 305, 325, "g9t1")]
    ntexts = []
    for ft, a, b, t in new_lines:
        attrs = '%s "g9";' % gk + (' %s "%s";' % (tk, t) if t else "")
        ntexts.append("\t".join(["c9", "s", ft, str(a), str(b), ".", "+", ".", attrs]))
    upath = dbutil.write_text(os.path.dirname(path), "later.gtf", "\n".join(ntexts) + "\n")
    usig = dict(sig, after_update=True)
    try:
        db.update(upath, make_backup=False, **kw)
    except Exception as e:
        ctx.fail("update-raised", dict(usig, exc=type(e).__name__), file=texts, update=ntexts, message=str(e)[:200])
        return
    after = {f.id: str(f) for f in db.all_features()}
    ctx.check(all(after.get(k_) == v for k_, v in before.items()), "update-changed-earlier-features", usig, file=texts, update=ntexts,
              changed=sorted(k_ for k_, v in before.items() if after.get(k_) != v)[:5])
    want = {}
    if explicit in ("transcript", "both"):
        want["g9t1"] = ("transcript", 300, 331)
    elif not dis_t:
        want["g9t1"] = ("transcript", 300, 330)
    if explicit in ("gene", "both"):
        want["g9"] = ("gene", 300, 332)
    elif not dis_g:
        want["g9"] = ("gene", 300, 330)
    new = {k_: v for k_, v in after.items() if k_ not in before}
    for k_, (ft, a, b) in want.items():
        try:
            f = db[k_]
            ctx.check((f.featuretype, f.start, f.end, f.seqid, f.strand) == (ft, a, b, "c9", "+"), "feature-columns-differ",
                      dict(usig, derived=True, explicit_line=False), file=texts, update=ntexts, id=k_, got=str(f))
        except gffutils.FeatureNotFoundError:
            ctx.fail("expected-feature-missing", dict(usig, derived=True), file=texts, update=ntexts, missing=[k_])
    n_expected = len(new_lines) + sum(1 for k_ in want if not any(l[0] == want[k_][0] for l in new_lines))
    ctx.check(len(new) == n_expected, "unexpected-feature" if len(new) > n_expected else "expected-feature-missing", usig, file=texts,
              update=ntexts, new=sorted(new), expected_count=n_expected)
    if "g9t1" in want:
        kids = sorted(f.featuretype for f in db.children("g9t1", level=1))
        ctx.check(kids == sorted([sub, sub, "CDS"]), "children-differ", dict(usig, level=1), file=texts, update=ntexts, id="g9t1", got=kids)
    if "g9" in want:
        # (an explicit transcript line may or may not also be listed at level 2 under its gene: accepted either way, see ASSUMPTIONS)
        kids2 = sorted(f.featuretype for f in db.children("g9", level=2) if f.featuretype != "transcript")
        ctx.check(kids2 == sorted([sub, sub, "CDS"]), "children-differ", dict(usig, level=2), file=texts, update=ntexts, id="g9", got=kids2)
        if "g9t1" in want:
            k1 = [f.id for f in db.children("g9", level=1)]
            ctx.check(k1 == ["g9t1"], "children-differ", dict(usig, level=1), file=texts, update=ntexts, id="g9", got=k1)

