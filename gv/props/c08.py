"""C08 -- attribute values survive print/parse losslessly; parsing never fails (E1)."""
import itertools
import os

from gffutils.feature import Feature, feature_from_line

from gv.model import grammar as G

ID = "C08"
RULE = (
    "Part 'enc' (shards = dialect dictionary (72 = fmt/keyval separator {gff3 '=', gff3 ' ', gtf ' '} x quoted x 3 field separators x "
    "trailing x repeated keys) x length): every value string of length 1..2 (quick) / 1..3 (thorough) over a 19-symbol alphabet (the "
    "letter a, blank, tab, LF, CR, reserved characters, quote, NUL, 0x1f, 0x7f, e-acute, U+2028, U+0085, '+', the 3-character text "
    "'%41') x 4 placements; GTF dictionaries skip values containing ; \" , or control characters. A Feature with that dialect is printed "
    "and re-parsed with it: printing twice gives the same text and hash, printing does not modify the attributes, the text is one line "
    "with 9 + extras columns, columns and the attribute mapping are unchanged; for placement 0 the round trip is repeated after the "
    "caller edited its dialect dictionary, and (GFF3 dictionaries) the global ignore_url_escape_characters switch was on for an earlier "
    "print and is off again. Part 'batch' (72 shards x input form path / gzip / from_string, both tiers): all admissible values of "
    "length 1..2 (up to 380) printed under one dictionary into ONE text and read back by DataIterator: as many features as lines, "
    "mappings unchanged. Part 'total' (shards by length and first two symbols): every string of length 0..6 (quick) / 0..7 (thorough) "
    "over the 9-symbol structural alphabet as the attribute column, parsed with inference and three supplied dialects: must not raise "
    "and must yield lists of strings. Part 'long': 15 long (30-78 character) strings x the same 4 dialect options, each under a 20 s "
    "termination guard. Non-trivial = the value contains a character needing escape, a blank, quote, '+' or non-ASCII (enc); the string "
    "has >= 2 structural characters (total); every batch and long execution."
)
ASSUMPTIONS = [
    "exhaustive for the stated alphabets and lengths only: 'arbitrary Unicode' and 'randomly beyond' are not sampled (small-scope assumption)",
    "GTF-style dictionaries are exercised only with values free of ; \" , and control characters, as the statement says",
    "'single line' means no LF/CR in the printed text (files are split on those); part 'batch' relies on it: one printed feature per line",
]

ALPHA = ["a", " ", "\t", "\n", "\r", "%", ";", "=", "&", ",", '"', "\x00", "\x1f", "\x7f", "é", " ", "%41", "+", "\x85"]
STRUCT = ["a", "=", ";", " ", '"', ",", "%", "2", "C"]


def dialects():
    out = []
    for fmt, kv in (("gff3", "="), ("gff3", " "), ("gtf", " ")):
        for quoted in (False, True):
            for sep in G.SEPS:
                for trailing in (False, True):
                    for rep in (False, True):
                        out.append({
                            "leading semicolon": False, "trailing semicolon": trailing,
                            "quoted GFF2 values": quoted, "field separator": sep,
                            "keyval separator": kv, "multival separator": ",", "fmt": fmt,
                            "repeated keys": rep, "order": ["ID", "k.1-a"],
                        })
    return out


DIALECTS = dialects()
SUPPLIED = [DIALECTS[0],
            [d for d in DIALECTS if d["fmt"] == "gtf" and d["quoted GFF2 values"] and d["field separator"] == "; " and d["trailing semicolon"]][0],
            [d for d in DIALECTS if d["fmt"] == "gff3" and d["keyval separator"] == " " and d["repeated keys"]][0]]


def L_of(tier):
    return 2 if tier == "quick" else 3


def N_of(tier):
    return 6 if tier == "quick" else 7


def bounds(tier):
    return dict(dialect_dictionaries=len(DIALECTS), value_alphabet=[repr(a) for a in ALPHA], max_value_len=L_of(tier),
                placements=4, structural_alphabet=STRUCT, max_attr_string_len=N_of(tier))


def shards(tier):
    out = [("enc", i, n) for i in range(len(DIALECTS)) for n in range(1, L_of(tier) + 1)]
    # total parsing: shard on length and the first two symbols
    for n in range(0, N_of(tier) + 1):
        if n < 2:
            out.append(("total", n, None))
        else:
            out.extend(("total", n, (a, b)) for a in range(len(STRUCT)) for b in range(len(STRUCT)))
    out.append(("long",))
    out.extend(("batch", i) for i in range(len(DIALECTS)))
    return out


GTF_FORBIDDEN = set(';",') | set(chr(i) for i in range(32)) | {"\x7f"}
COLS = dict(seqid="c1", source="s", featuretype="gene", start=5, end=9, score="0.5", strand="-", frame="1")


def body_enc(ch, ctx):
    _, di, n = ctx.shard
    D = DIALECTS[di]
    v = "".join(ch.choose("c%d" % i, ALPHA) for i in range(n))
    place = ch.index("placement", 4)
    gtf = D["fmt"] == "gtf"
    if gtf and (set(v) & GTF_FORBIDDEN):
        ctx.outcome("gtf-excluded")
        return
    if place == 0:
        mapping, extras = {"ID": [v]}, []
    elif place == 1:
        mapping, extras = {"ID": [v, "b"]}, []
    elif place == 2:
        mapping, extras = {"k.1-a": ["a", v]}, []
    else:
        mapping, extras = {"ID": ["x"], "k.1-a": [v]}, ["e1"]
    ctx.sample(lambda: dict(dialect={k: D[k] for k in D if k != "order"}, mapping=mapping))
    ctx.nontrivial(any(G.needs_escape(c) or c in ' "+' or ord(c) > 127 for c in v))
    sig = dict(fmt=D["fmt"], kv=D["keyval separator"], quoted=D["quoted GFF2 values"])
    edge_ws = v != v.strip()
    if place == 0 and not gtf:
        # the library-wide "do not escape" switch was on for a while (another caller printed the same value then) and is off
        # again: what is printed from now on must not depend on that episode
        from gffutils import constants
        constants.ignore_url_escape_characters = True
        try:
            str(Feature(attributes={"ID": [v]}, dialect=D, **COLS))
        finally:
            constants.ignore_url_escape_characters = False
    f = Feature(attributes={k: list(x) for k, x in mapping.items()}, dialect=D, extra=list(extras), **COLS)
    text = str(f)
    again = str(f)
    ctx.check(again == text and hash(f) == hash(f), "printing-twice-differs", sig, mapping=mapping, first=text, second=again)
    ctx.check({k: list(x) for k, x in G.as_plain(f.attributes).items()} == {k: list(x) for k, x in mapping.items()},
              "printing-modified-attributes", sig, mapping=mapping, after=dict(G.as_plain(f.attributes)))
    if not ctx.check("\n" not in text and "\r" not in text, "printed-text-not-one-line", sig, mapping=mapping, text=text):
        return
    cols = text.split("\t")
    if not ctx.check(len(cols) == 9 + len(extras), "wrong-column-count", sig, mapping=mapping, text=text, columns=len(cols)):
        return
    g = feature_from_line(text, dialect=D)
    got = G.as_plain(g.attributes)
    same_cols = ([g.seqid, g.source, g.featuretype, g.start, g.end, g.score, g.strand, g.frame, list(g.extra)]
                 == [COLS["seqid"], COLS["source"], COLS["featuretype"], 5, 9, "0.5", "-", "1", list(extras)])
    ctx.check(same_cols, "columns-changed", sig, mapping=mapping, text=text)
    ok = list(got.items()) == [(k, list(x)) for k, x in mapping.items()]
    ctx.outcome((D["fmt"], D["keyval separator"], ok))
    if place == 0 and ok:
        # the caller edits its own dialect dictionary between two uses (a different, equally valid dialect)
        D2 = dict(D)
        feature_from_line(str(Feature(attributes={"ID": [v], "k.1-a": ["w"]}, dialect=D2, **COLS)), dialect=D2)
        D2["field separator"] = {";": "; ", "; ": " ; ", " ; ": ";"}[D2["field separator"]]
        D2["trailing semicolon"] = not D2["trailing semicolon"]
        m2 = {"ID": [v], "k.1-a": ["w"]}
        g2 = feature_from_line(str(Feature(attributes={k: list(x) for k, x in m2.items()}, dialect=D2, **COLS)), dialect=D2)
        ok2 = list(G.as_plain(g2.attributes).items()) == [(k, list(x)) for k, x in m2.items()]
        if not (gtf and not D["quoted GFF2 values"] and edge_ws):
            ctx.check(ok2, "mapping-changed-after-dialect-dictionary-was-edited", sig, mapping=m2, got=list(G.as_plain(g2.attributes).items()),
                      dialect={k: D2[k] for k in D2 if k != "order"})
    ctx.check(ok, "mapping-changed",
              dict(sig, edge_whitespace=edge_ws, unquoted_gtf=gtf and not D["quoted GFF2 values"]),
              mapping=mapping, text=text, got=list(got.items()), sep=D["field separator"],
              trailing=D["trailing semicolon"], repeated=D["repeated keys"])


def body_batch(ch, ctx):
    """Every value of length 1..2 printed under one dialect, all lines in ONE text, read back through the file-level readers
    (path, gzip path, from_string): the line structure of the text must be exactly the printed lines."""
    import gzip
    import gffutils
    from gv.model import dbutil
    _, di = ctx.shard
    D = DIALECTS[di]
    form = ch.choose("form", ("path", "string", "gz"))
    gtf = D["fmt"] == "gtf"
    vals = [a for a in ALPHA] + [a + b for a in ALPHA for b in ALPHA]
    if gtf:
        vals = [v for v in vals if not (set(v) & GTF_FORBIDDEN) and (D["quoted GFF2 values"] or v == v.strip())]
    maps = [{"ID": [v], "k.1-a": ["w%d" % i]} for i, v in enumerate(vals)]
    lines = [str(Feature(attributes={k: list(x) for k, x in m.items()}, dialect=D, **COLS)) for m in maps]
    ctx.sample(lambda: dict(dialect={k: D[k] for k in D if k != "order"}, form=form, n_lines=len(lines)))
    ctx.nontrivial()
    ctx.outcome(("batch", D["fmt"], D["keyval separator"], form))
    sig = dict(fmt=D["fmt"], kv=D["keyval separator"], quoted=D["quoted GFF2 values"], form=form, batch=True)
    if not ctx.check(all("\n" not in t and "\r" not in t for t in lines), "printed-text-not-one-line", sig):
        return
    text = "\n".join(lines) + "\n"
    wd = ctx.fresh_dir()
    if form == "path":
        it = gffutils.DataIterator(dbutil.write_text(wd, "b.gff", text), dialect=D)
    elif form == "gz":
        p = os.path.join(wd, "b.gff.gz")
        with gzip.open(p, "wb") as fh:
            fh.write(text.encode("utf-8"))
        it = gffutils.DataIterator(p, dialect=D)
    else:
        it = gffutils.DataIterator(text, from_string=True, dialect=D)
    got = [list(G.as_plain(f.attributes).items()) for f in it]
    exp = [[(k, list(x)) for k, x in m.items()] for m in maps]
    if not ctx.check(len(got) == len(exp), "file-reader-splits-the-text-differently", sig, n_lines=len(exp), n_features=len(got)):
        return
    bad = [(vals[i], got[i]) for i in range(len(exp)) if got[i] != exp[i]]
    ctx.check(not bad, "mapping-changed", dict(sig, edge_whitespace=False, unquoted_gtf=gtf and not D["quoted GFF2 values"]),
              n_bad=len(bad), first=[(repr(a), b) for a, b in bad[:3]])


def body_total(ch, ctx):
    _, n, first = ctx.shard
    if first is None:
        s = "".join(ch.choose("c%d" % i, STRUCT) for i in range(n))
    else:
        s = STRUCT[first[0]] + STRUCT[first[1]] + "".join(ch.choose("c%d" % i, STRUCT) for i in range(2, n))
    ctx.sample(lambda: dict(attribute_column=s))
    ctx.nontrivial(sum(1 for c in s if c != "a" and c != "2" and c != "C") >= 2)
    line = "c\ts\tt\t1\t2\t.\t+\t.\t" + s
    shapes = []
    for which, D in enumerate([None] + SUPPLIED):
        try:
            f = feature_from_line(line, dialect=D)
            attrs = G.as_plain(f.attributes)
        except Exception as e:
            ctx.fail("parse-raised", dict(supplied=which, exc=type(e).__name__), string=s, message=str(e)[:300])
            continue
        good = all(isinstance(k, str) and isinstance(v, list) and all(isinstance(x, str) for x in v)
                   for k, v in attrs.items())
        ctx.check(good, "values-not-lists-of-strings", dict(supplied=which), string=s, got=repr(attrs)[:300])
        shapes.append(len(attrs))
    ctx.outcome(tuple(shapes))


LONG = ["a" * 30, "Sequence_similarity_group_000000000000000000001234", "x" * 40 + " y", "k=" + "v" * 60, "a" * 25 + ";" + "b" * 25,
        '"' * 30, "=" * 30, ";" * 30, "%" * 30, " " * 30, "a b " * 12, "a=b;" * 12 + "c" * 30, "key " + "w" * 64, "a.b-c" * 8, "AbC_9" * 7 + "!"]


class _Timeout(Exception):
    pass


def body_long(ch, ctx):
    import signal
    s = ch.choose("string", LONG)
    which = ch.index("dialect", 1 + len(SUPPLIED))
    D = ([None] + SUPPLIED)[which]
    ctx.sample(lambda: dict(attribute_column=s, supplied=which))
    ctx.nontrivial()
    ctx.outcome(("long", which))
    line = "c\ts\tt\t1\t2\t.\t+\t.\t" + s

    def onalarm(sig, frm):
        raise _Timeout()

    old = signal.signal(signal.SIGALRM, onalarm)
    signal.alarm(20)
    try:
        f = feature_from_line(line, dialect=D)
        attrs = G.as_plain(f.attributes)
        good = all(isinstance(k, str) and isinstance(v, list) and all(isinstance(x, str) for x in v) for k, v in attrs.items())
        ctx.check(good, "values-not-lists-of-strings", dict(supplied=which), string=s)
    except _Timeout:
        ctx.fail("parse-did-not-terminate", dict(supplied=which), string=s, seconds=20)
    except Exception as e:
        ctx.fail("parse-raised", dict(supplied=which, exc=type(e).__name__), string=s, message=str(e)[:300])
    finally:
        signal.alarm(0)
        signal.signal(signal.SIGALRM, old)


def body(ch, ctx):
    if ctx.shard[0] == "enc":
        body_enc(ch, ctx)
    elif ctx.shard[0] == "long":
        body_long(ch, ctx)
    elif ctx.shard[0] == "batch":
        body_batch(ch, ctx)
    else:
        body_total(ch, ctx)
