"""C17 -- attribute container, JSON storage form and feature equality are coherent (E1)."""
import copy
import os

import gffutils
from gffutils import constants, helpers
from gffutils.attributes import Attributes
from gffutils.feature import feature_from_line

from gv.model import dbutil, grammar as G

ID = "C17"
RULE = (
    "Part 'set' (shards = feature source {parsed line, database look-up, parsed line with an empty attribute column (new key only)} x "
    "setter {Feature[k]=, attributes[k]=, update, setdefault}): value (10 shapes incl. empty list, bare string, non-ASCII, reserved "
    "characters, 2-tuple, 1-tuple; thorough 17: plus astral-plane, combining / direction-override, BOM, NUL, quote-backslash, "
    "U+2028/U+0085, JSON-looking) x existing/new key x always_return_list: the underlying storage holds lists of strings for every key, "
    "the view and Feature[k] follow the switch, items() / values() / get() / iteration show the same view as [], and the printed line, "
    "astuple() and JSON form are identical under both switch settings and equal the expected line. Part 'json' (shards = key count 1..3 "
    "x first value): every mapping over the value shapes (1110 / 5219 mappings; keys non-ASCII or with a blank, or Python-meaningful "
    "names like self, __class__) x container {Attributes, dict}: _jsonify/_unjsonify round trip is the identity and returns Attributes, "
    "a second decode is independent of edits to the first, and a Feature built from the JSON text has the mapping. Part 'merge' (81 "
    "shards): all ordered pairs of 81 mappings x numeric_sort x container {dict, Attributes, dict with bare-string scalars} x switch: "
    "merge_attributes equals a reference union and leaves its arguments unchanged. Part 'eq' (24 shards): all ordered pairs of a "
    "24-feature set: ==/!= agree with printed-line equality, equal features hash alike and deduplicate in a set, also against the line "
    "re-parsed from its print (no id) and a copy carrying a database key, and for a feature that was hashed and then edited into the "
    "other. Non-trivial = a scalar, single-item or non-ASCII value is involved (set/json); both arguments share a key (merge); the two "
    "features differ in exactly one column/attribute/extra, or are equal but distinct entries (eq). numeric_sort is only named when "
    "True (plain sorting is the documented default)."
)
ASSUMPTIONS = [
    "'sequence of strings' is checked on the underlying storage (Attributes._d) and on the JSON text",
    "the global switch constants.always_return_list is restored after every execution",
]

VALUES = [[], ["a"], ["ab"], ["a", "b"], ["é"], [" ", "%"], "x", ["U v", "w;=,"], ("t1", "t2"), ("only",)]
# thorough adds values from further corners of Unicode (astral plane, combining mark, direction override, BOM, NUL, JSON syntax)
VALUES_T = VALUES + [["\U0001F600"], ["e\u0301", "\u202eabc"], ["\ufeff"], ["a\x00b"], ['q"uo\\te', "</script>"], ["\u2028", "\x85"], ["{\"k\": [1]}"]]


def values_of(tier):
    return VALUES if tier == "quick" else VALUES_T


SETTERS = ("feature_setitem", "attributes_setitem", "update", "setdefault")
LINE = "c1\ts\tgene\t5\t9\t.\t+\t.\tID=abc;Name=n1,n2;tag=t"

MVALS = [None, [], ["a"], ["b", "a"], ["10", "9"], ["2", "x"], ["1.5", "10"], ["5.0", "5"], ["1e1", "007", "7"]]


def bounds(tier):
    V = values_of(tier)
    return dict(set_values=[repr(v) for v in V], setters=list(SETTERS), json_mappings=len(V) ** 3 + len(V) ** 2 + len(V),
                merge_mappings=len(MVALS) ** 2, eq_features=24)


def shards(tier):
    out = [("set", src, si) for src in ("parsed", "db", "parsed_empty") for si in range(len(SETTERS))]
    out += [("json", n, v0) for n in (1, 2, 3) for v0 in range(len(values_of(tier)))]
    out += [("merge", i) for i in range(len(MVALS) ** 2)]
    out += [("eq", i) for i in range(24)]
    return out


def get_db(ctx):
    if "db" not in ctx.memo:
        d = os.path.join(ctx.tmpdir, "c17-%d" % os.getpid())
        os.makedirs(d, exist_ok=True)
        p = dbutil.write_text(d, "in.gff", LINE + "\n")
        ctx.memo["db"] = gffutils.create_db(p, os.path.join(d, "o.db"), verbose=False, force=True, keep_order=True)
    return ctx.memo["db"]


def seq_of_str(v):
    return isinstance(v, (list, tuple)) and all(isinstance(x, str) for x in v)


def body_set(ch, ctx):
    _, src, si = ctx.shard
    setter = SETTERS[si]
    v = ch.choose("value", values_of(ctx.tier))
    key = ch.choose("key", ("Name", "fresh"))
    switch = ch.choose("always_return_list", (True, False))
    if src == "parsed_empty":
        # a line whose ninth column is empty: its attributes must be the same kind of container all the same
        if key == "Name":
            ctx.outcome("skipped")
            return
        f = feature_from_line("\t".join(LINE.split("\t")[:8]) + "\t", keep_order=True)
    elif src == "parsed":
        f = feature_from_line(LINE, keep_order=True)
    else:
        f = get_db(ctx)["abc"]
    sig = dict(source=src, setter=setter, switch=switch)
    ctx.sample(lambda: dict(source=src, setter=setter, value=v, key=key, always_return_list=switch))
    ctx.nontrivial(isinstance(v, str) or len(v) == 1 or any(ord(c) > 127 for x in v for c in x))
    ctx.outcome((src, setter, repr(v), key, switch))
    orig = constants.always_return_list
    try:
        constants.always_return_list = switch
        val = copy.deepcopy(v)
        if setter == "feature_setitem":
            f[key] = val
        elif setter == "attributes_setitem":
            f.attributes[key] = val
        elif setter == "update":
            f.attributes.update({key: val})
        else:
            f.attributes.setdefault(key, val)
        stored = f.attributes._d if isinstance(f.attributes, Attributes) else f.attributes
        want = [v] if isinstance(v, str) else list(v)           # a tuple is a sequence of strings as well
        if setter == "setdefault" and key == "Name":
            want = ["n1", "n2"]
        got = stored.get(key)
        ctx.check(seq_of_str(got) and list(got) == want, "stored-value-not-list-of-strings", sig, key=key, value=v, stored=repr(got))
        ctx.check(all(seq_of_str(x) for x in stored.values()), "stored-value-not-list-of-strings", dict(sig, other_key=True), stored=repr(stored))
        # the view
        view = f.attributes[key]
        if switch or len(want) != 1:
            ok = list(view) == want and not isinstance(view, str)
        elif isinstance(v, tuple):
            ok = view == want[0] or list(view) == want      # the switch is about single-item LISTS; a 1-tuple may stay as it is
        else:
            ok = view == want[0]
        ctx.check(ok, "view-differs", sig, key=key, value=v, view=repr(view))
        ctx.check(f[key] == view, "feature-getitem-differs-from-attributes", sig, key=key)
        # every way of looking at the mapping shows the same view
        a = f.attributes
        other = dict(items=dict(a.items()).get(key), values=list(a.values())[list(a.keys()).index(key)], get=a.get(key),
                     iteration=[a[k] for k in a][list(a).index(key)])
        bad = sorted(k for k, x in other.items() if x != view or type(x) is not type(view))
        ctx.check(not bad, "views-of-one-mapping-disagree", dict(sig, via=",".join(bad)), key=key, getitem=repr(view),
                  others={k: repr(x) for k, x in other.items()})
        printed_here = str(f)
        tup_here = f.astuple()
        json_here = helpers._jsonify(f.attributes)
        constants.always_return_list = not switch
        printed_other = str(f)
        tup_other = f.astuple()
        json_other = helpers._jsonify(f.attributes)
    finally:
        constants.always_return_list = orig
    ctx.check(printed_here == printed_other, "print-depends-on-always_return_list", sig, with_switch=printed_here if switch else printed_other,
              without=printed_other if switch else printed_here)
    ctx.check(tup_here == tup_other and json_here == json_other, "stored-form-depends-on-always_return_list", sig, a=json_here, b=json_other)
    # absolute expectation for the printed line (GFF3 default dialect, keep_order)
    exp_items = [("ID", ["abc"]), ("Name", ["n1", "n2"]), ("tag", ["t"])] if src != "parsed_empty" else []
    if not (setter == "setdefault" and key == "Name"):
        if key == "Name":
            exp_items[1] = ("Name", want)
        else:
            exp_items.append(("fresh", want))
    exp_line = "c1\ts\tgene\t5\t9\t.\t+\t.\t" + G.render_attrs(G.ALL[0], exp_items)
    for name, printed in (("on", printed_here if switch else printed_other), ("off", printed_other if switch else printed_here)):
        ctx.check(printed == exp_line, "printed-line-wrong", dict(sig, printed_with_switch=name), expected=exp_line, printed=printed)


def body_json(ch, ctx):
    _, n, v0 = ctx.shard
    V = values_of(ctx.tier)
    vals = [V[v0]] + [ch.choose("v%d" % i, V) for i in range(1, n)]
    keys = (["kβ", "a b", "Z"] if v0 % 2 == 0 else ["self", "kwargs", "__class__"])[:n]      # odd: names with a meaning in Python
    m = {}
    for k, v in zip(keys, vals):
        m[k] = [v] if isinstance(v, str) else list(v)
    container = ch.choose("container", ("Attributes", "dict"))
    obj = Attributes(m) if container == "Attributes" else dict(m)
    ctx.sample(lambda: dict(mapping=m, container=container))
    ctx.nontrivial(any(len(v) == 1 or any(ord(c) > 127 for x in v for c in x) for v in m.values()))
    text = helpers._jsonify(obj)
    back = helpers._unjsonify(text, isattributes=True)
    got = G.as_plain(back)
    ctx.outcome((n, container, len(text) > 20))
    ctx.check(isinstance(text, str) and list(got.items()) == list(m.items()), "json-roundtrip-differs", dict(container=container),
              mapping=m, json=text, back=list(got.items()))
    ctx.check(isinstance(back, Attributes), "unjsonify-not-attributes", None, type=type(back).__name__)
    # decoding the same stored text again is independent of what was done to an earlier decode
    for k in list(back.keys()):
        stored = back._d[k]
        if isinstance(stored, list):
            stored.append("EDITED")
    back["new_key"] = ["n"]
    again = G.as_plain(helpers._unjsonify(text, isattributes=True))
    ctx.check(list(again.items()) == list(m.items()), "second-decode-of-same-json-differs", dict(container=container),
              mapping=m, json=text, second=list(again.items()))
    # through a Feature constructed from the JSON text (what the database does)
    f = gffutils.Feature(seqid="c", start=1, end=2, attributes=text)
    ctx.check(list(G.as_plain(f.attributes).items()) == list(m.items()), "feature-from-json-differs", None, mapping=m,
              got=list(G.as_plain(f.attributes).items()))


def ref_merge(a, b, numeric):
    out = {}
    for k in list(a) + [k for k in b if k not in a]:
        vals = set(a.get(k, [])) | set(b.get(k, []))
        if numeric:
            try:
                out[k] = [s for _, s in sorted((float(v), v) for v in vals)]
                continue
            except ValueError:
                pass
        out[k] = sorted(vals)
    return out


def body_merge(ch, ctx):
    _, i = ctx.shard
    n = len(MVALS)
    a = {k: list(v) for k, v in (("k1", MVALS[i // n]), ("k2", MVALS[i % n])) if v is not None}
    j = ch.index("second", n * n)
    b = {k: list(v) for k, v in (("k1", MVALS[j // n]), ("k3", MVALS[j % n])) if v is not None}
    numeric = ch.flag("numeric_sort")
    container = ch.choose("container", ("dict", "Attributes", "dict_with_scalars"))
    switch = ch.choose("always_return_list", (True, False))
    if container == "dict_with_scalars":
        # hand-written dictionaries: single values given as bare strings
        A = {k: (v[0] if len(v) == 1 else list(v)) for k, v in a.items()}
        B = {k: (v[0] if len(v) == 1 else list(v)) for k, v in b.items()}
        A0, B0 = copy.deepcopy(A), copy.deepcopy(B)
    else:
        A = Attributes(a) if container == "Attributes" else copy.deepcopy(a)
        B = Attributes(b) if container == "Attributes" else copy.deepcopy(b)
        A0, B0 = copy.deepcopy(G.as_plain(A)), copy.deepcopy(G.as_plain(B))
    ctx.sample(lambda: dict(a=a, b=b, numeric_sort=numeric, container=container, always_return_list=switch))
    ctx.nontrivial("k1" in a and "k1" in b)
    sig = dict(numeric_sort=numeric, container=container, switch=switch)
    orig = constants.always_return_list
    try:
        constants.always_return_list = switch
        res = helpers.merge_attributes(A, B, **(dict(numeric_sort=True) if numeric else {}))      # plain sorting is the default
        got = {k: (list(v) if isinstance(v, (list, tuple)) else v) for k, v in dict(G.as_plain(res) if isinstance(res, Attributes) else res).items()}
    finally:
        constants.always_return_list = orig
    exp = ref_merge(a, b, numeric)
    ctx.outcome((numeric, container, switch, len(exp)))
    ctx.check(got == exp, "merge_attributes-differs", sig, a=a, b=b, got=got, expected=exp)
    if container == "dict_with_scalars":
        ctx.check(A == A0 and B == B0, "merge_attributes-modified-argument", sig, a=A0, b=B0, a_after=A, b_after=B)
    else:
        ctx.check(G.as_plain(A) == A0 and G.as_plain(B) == B0, "merge_attributes-modified-argument", sig, a=a, b=b,
                  a_after=dict(G.as_plain(A)), b_after=dict(G.as_plain(B)))


def eq_features():
    base = dict(seqid="c1", source="s", featuretype="gene", start=1, end=9, score=".", strand="+", frame=".")
    out = []
    variants = [{}, {"seqid": "c2"}, {"source": "t"}, {"featuretype": "exon"}, {"start": 2}, {"end": 8}, {"score": "1"}, {"strand": "-"},
                {"frame": "0"}]
    attrs = [{"ID": ["a"]}, {"ID": ["b"]}, {"ID": ["a"], "N": ["x"]}, {"ID": ["a", "b"]}]
    for v in variants:
        d = dict(base)
        d.update(v)
        out.append((d, attrs[0], []))
    for at in attrs[1:]:
        out.append((dict(base), at, []))
    out.append((dict(base), attrs[0], ["e"]))
    out.append((dict(base), attrs[0], ["e", "f"]))
    # duplicates built independently (equal but not identical)
    for k in (0, 4, 9, 12):
        d, at, ex = out[k]
        out.append((dict(d), copy.deepcopy(at), list(ex)))
    out.append((dict(base, start=1, end=9), {"ID": ["a"]}, []))
    out.append((dict(base), {}, []))
    out.append((dict(base, start=None, end=None), {"ID": ["a"]}, []))
    out.append((dict(base), {"N": ["x"], "ID": ["a"]}, []))
    out.append((dict(base, score="1.0"), {"ID": ["a"]}, []))
    out.append((dict(base, seqid="c1 "), {"ID": ["a"]}, []))
    return out[:24]


def body_eq(ch, ctx):
    _, i = ctx.shard
    specs = eq_features()
    j = ch.index("other", len(specs))
    mk = lambda s: gffutils.Feature(attributes={k: list(v) for k, v in s[1].items()}, extra=list(s[2]), **s[0])
    f, g = mk(specs[i]), mk(specs[j])
    same = str(f) == str(g)
    ctx.sample(lambda: dict(a=str(f), b=str(g), equal=same))
    diffs = sum(1 for k in specs[i][0] if specs[i][0][k] != specs[j][0][k]) + (specs[i][1] != specs[j][1]) + (specs[i][2] != specs[j][2])
    ctx.nontrivial(diffs == 1 or (same and i != j))
    ctx.outcome((same, diffs))
    ctx.check((f == g) == same and (f != g) == (not same), "equality-differs-from-printed-line-equality", dict(printed_equal=same),
              a=str(f), b=str(g), eq=(f == g), ne=(f != g))
    if same:
        ctx.check(hash(f) == hash(g), "equal-features-hash-differently", None, a=str(f))
        ctx.check(len({f, g}) == 1, "equal-features-not-deduplicated-in-set", None, a=str(f))
        # the same line as it comes from elsewhere: parsed from its own print (no id), and carrying a database key
        p = feature_from_line(str(g))
        k = mk(specs[j])
        k.id = "key-%d" % j
        k.file_order = 7
        for other, how in ((p, "parsed"), (k, "keyed")):
            if str(other) == str(f):
                ctx.check(other == f and hash(other) == hash(f) and len({other, f}) == 1, "equal-features-hash-differently",
                          dict(other=how), a=str(f), b=str(other), hashes=[hash(f), hash(other)])
    # a feature that was hashed / compared and is then edited into the other one
    h = mk(specs[i])
    hash(h), h == g, {h: 1}
    for k, v in specs[j][0].items():
        setattr(h, k, v)
    for k in list(h.attributes.keys()):
        del h.attributes[k]
    for k, v in specs[j][1].items():
        h.attributes[k] = list(v)
    h.extra = list(specs[j][2])
    if str(h) == str(g):
        ctx.check(h == g and hash(h) == hash(g) and len({h, g}) == 1, "edited-feature-equal-but-hashes-differently", None, a=str(h))


def body(ch, ctx):
    part = ctx.shard[0]
    {"set": body_set, "json": body_json, "merge": body_merge, "eq": body_eq}[part](ch, ctx)
