"""C02 -- GFF3 hierarchy: children/parents are exactly the Parent graph, two levels deep (E1)."""
import itertools

import gffutils

from gv.model import dbutil

ID = "C02"
RULE = (
    "Part 'graphs' (shards = k x ranges of graph masks): every DAG on k = 1..4 (quick) / 1..5 (thorough) labelled features whose edges "
    "respect one topological order (2^(k(k-1)/2) graphs) x a dangling Parent value 'ghost' on none or exactly one feature x every "
    "permutation of the k lines x, when some feature has several parents (quick: only for k <= 3; thorough: for k <= 4), the Parent values written as one "
    "comma list, as a repeated key, or as one comma list that names the first parent a second time; the five ids contain an escaped "
    "comma (%2C), a colon ('autoincrement:n1'), a quote, an underscore (SQL wildcard) next to a blank, and an escaped per-cent sign. "
    "For each import (real create_db, :memory:) every (feature, level in {None,1,2}, featuretype in {None,'exon',('exon','mRNA')}, "
    "order_by in {None,'start',('seqid','start'),['seqid','length','start']}) query of children and parents (for k = 5 order_by is "
    "varied only with featuretype None) is compared with the two-level closure of the Parent lists (unordered as sets, ordered by "
    "start; all features share seqid and length, so every non-None order_by must give the order by start); per feature and level the "
    "positional call form (id, level, featuretype, order_by, reverse) must equal the keyword form; also children(Feature object), "
    "nested iteration (children inside a children loop), two interleaved result iterators (zip), db['ghost'] must raise "
    "FeatureNotFoundError, stored ids, import must not raise, and iter_by_parent_childs(featuretype='gene'). Part 'scale' (1 shard, 3 "
    "executions): one 7800-line file (600 genes x 2 mRNAs x 5 exons) in top-down, bottom-up and shuffled line order; relation counts "
    "per level (7200 / 6000) and children(level=2)/parents of three genes are checked. Non-trivial = the graph has a multi-parent node "
    "or a path of length >= 2 or a dangling value or the lines are not in topological order; every scale execution."
)
ASSUMPTIONS = [
    "unique ids; relations are defined two levels deep (deeper descendants are not relatives)",
    "all features sit on one seqid and have equal length, so every non-None order_by means 'by start'; a parent named twice in one Parent list gives one relation",
]

TYPES = ("gene", "mRNA", "exon", "exon", "CDS")
FTS = (None, "exon", ("exon", "mRNA"))
OBS = (None, "start", ("seqid", "start"), ["seqid", "length", "start"])


def kmax(tier):
    return 4 if tier == "quick" else 5


def bounds(tier):
    k = kmax(tier)
    return dict(max_features=k, graphs=2 ** (k * (k - 1) // 2), permutations="all k!", dangling="none or on one feature",
                levels=[None, 1, 2], featuretypes=[None, "exon", ["exon", "mRNA"]], order_by=[None, "start", ["seqid", "start"], ["seqid", "length", "start"]])


def shards(tier):
    out = []
    for k in range(1, kmax(tier) + 1):
        ng = 2 ** (k * (k - 1) // 2)
        step = 1 if k >= 4 else ng
        if k == 5:
            step = 4
        for g0 in range(0, ng, step):
            out.append((k, g0, min(g0 + step, ng)))
    out.append(("scale", 0, 0))
    return out


def edges_of(k, mask):
    pairs = [(i, j) for j in range(k) for i in range(j)]     # i -> j (i parent of j), i < j
    return [p for b, p in enumerate(pairs) if mask >> b & 1]


def closure(k, edges, stored):
    l1 = {x: set() for x in stored}
    for p, c in edges:
        if p in l1:
            l1[p].add(c)
    l2 = {x: set() for x in stored}
    for x in stored:
        for c in l1[x]:
            l2[x] |= l1.get(c, set())
    return l1, l2


def body_scale(ch, ctx):
    """600 genes x 2 mRNAs x 5 exons, lines shuffled deterministically: 6000 second-level relations."""
    order = ch.choose("line_order", ("top-down", "bottom-up", "shuffled"))
    lines = []
    for g in range(600):
        lines.append("c1\ts\tgene\t%d\t%d\t.\t+\t.\tID=g%d" % (1 + 100 * g, 90 + 100 * g, g))
        for m in range(2):
            lines.append("c1\ts\tmRNA\t%d\t%d\t.\t+\t.\tID=g%dm%d;Parent=g%d" % (1 + 100 * g, 90 + 100 * g, g, m, g))
            for e in range(5):
                lines.append("c1\ts\texon\t%d\t%d\t.\t+\t.\tID=g%dm%de%d;Parent=g%dm%d" % (1 + 100 * g + 10 * e, 5 + 100 * g + 10 * e, g, m, e, g, m))
    if order == "bottom-up":
        lines.reverse()
    elif order == "shuffled":
        lines = [lines[(i * 7919) % len(lines)] for i in range(len(lines))]
    db = gffutils.create_db(dbutil.write_text(ctx.fresh_dir(), "big.gff", "\n".join(lines) + "\n"), ":memory:", verbose=False)
    ctx.sample(lambda: dict(scale="600 genes x 2 mRNA x 5 exons", order=order))
    ctx.nontrivial()
    ctx.outcome(("scale", order))
    c = db.conn.execute("SELECT level, count(*) FROM relations GROUP BY level").fetchall()
    counts = {r[0]: r[1] for r in c}
    ctx.check(counts == {1: 1200 + 6000, 2: 6000}, "relation-counts-differ-at-scale", dict(order=order), got=counts,
              expected={1: 7200, 2: 6000})
    for g in (0, 299, 599):
        kids2 = sorted(f.id for f in db.children("g%d" % g, level=2))
        ctx.check(kids2 == sorted("g%dm%de%d" % (g, m, e) for m in range(2) for e in range(5)), "children-differ",
                  dict(order=order, scale=True), gene=g, got=kids2[:4])
        ps = sorted(f.id for f in db.parents("g%dm1e4" % g))
        ctx.check(ps == ["g%d" % g, "g%dm1" % g], "parents-differ", dict(order=order, scale=True), got=ps)


def body(ch, ctx):
    if ctx.shard[0] == "scale":
        return body_scale(ch, ctx)
    k, g0, g1 = ctx.shard
    mask = ch.choose("graph", range(g0, g1))
    dangling = ch.choose("dangling", [None] + list(range(k)))
    perms = ctx.memo.get(("perms", k))
    if perms is None:
        perms = ctx.memo.setdefault(("perms", k), list(itertools.permutations(range(k))))
    perm = ch.choose("permutation", perms)
    edges = edges_of(k, mask)
    # ids with a comma or a per-cent sign (escaped in the file), a quote, an SQL wildcard, and one that looks like a keyword
    names = ["n,0", "autoincrement:n1", "n'2", "n _3", "n%4"][:k]          # (the fourth also holds a blank)
    parents_of = {j: [names[i] for i, jj in edges if jj == j] for j in range(k)}
    if dangling is not None:
        parents_of[dangling] = parents_of[dangling] + ["ghost"]
    lines = {}
    enc = lambda x: x.replace("%", "%25").replace(",", "%2C")
    # several parents are written as a comma list or by repeating the key (the rest of the file has nothing to repeat)
    style = ch.choose("multi_parent_style", ("comma", "repeated", "comma+first-again")) if any(len(v) > 1 for v in parents_of.values()) and (k <= 3 or (k == 4 and ctx.tier != "quick")) else "comma"
    for i in range(k):
        attrs = "ID=%s" % enc(names[i])
        if parents_of[i] and style == "comma+first-again" and len(parents_of[i]) > 1:
            attrs += ";Parent=" + ",".join(enc(p) for p in parents_of[i] + parents_of[i][:1])      # the first parent is named a second time
        elif parents_of[i] and style != "repeated":
            attrs += ";Parent=" + ",".join(enc(p) for p in parents_of[i])
        elif parents_of[i]:
            attrs += "".join(";Parent=" + enc(p) for p in parents_of[i])
        lines[i] = "c1\ts\t%s\t%d\t%d\t.\t+\t.\t%s" % (TYPES[i], 100 - 10 * i, 200 - 10 * i, attrs)
    text = "\n".join(lines[i] for i in perm) + "\n"
    l1, l2 = closure(k, edges, range(k))
    multi = any(len(v) > 1 for v in parents_of.values())
    deep = any(l2[x] for x in l2)
    topo = list(perm) == sorted(perm)
    ctx.nontrivial(multi or deep or dangling is not None or not topo)
    ctx.sample(lambda: dict(k=k, edges=edges, dangling=dangling, permutation=list(perm), text=text))
    ctx.outcome((k, len(edges), multi, deep, dangling is not None, topo))
    sig = dict(multi_parent=multi, depth2=deep, dangling=dangling is not None, topological_order=topo)
    try:
        db = gffutils.create_db(dbutil.write_text(ctx.fresh_dir(), "in.gff", text), ":memory:", verbose=False)
    except Exception as e:
        ctx.fail("import-raised", dict(sig, exc=type(e).__name__), text=text, message=str(e)[:300])
        return
    stored = [f.id for f in db.all_features()]
    ctx.check(sorted(stored) == sorted(names), "stored-features-differ", sig, text=text, stored=stored)
    start = {names[i]: 100 - 10 * i for i in range(k)}
    ftype = {names[i]: TYPES[i] for i in range(k)}
    for x in range(k):
        for level in (None, 1, 2):
            if level == 1:
                kids = l1[x]
            elif level == 2:
                kids = l2[x]
            else:
                kids = l1[x] | l2[x]
            exp_children = sorted(names[c] for c in kids if c != x)
            if level == 1:
                pars = {p for p in range(k) if x in l1[p]}
            elif level == 2:
                pars = {p for p in range(k) if x in l2[p]}
            else:
                pars = {p for p in range(k) if x in l1[p] or x in l2[p]}
            exp_parents = sorted(names[p] for p in pars)
            for ft in FTS:
                for ob in OBS if (k < 5 or ft is None) else (None,):
                    for which, exp in (("children", exp_children), ("parents", exp_parents)):
                        want = [n for n in exp if ft is None or ftype[n] == ft or (not isinstance(ft, str) and ftype[n] in ft)]
                        got = [f.id for f in getattr(db, which)(names[x], level=level, featuretype=ft, order_by=ob)]
                        if ob is None:
                            ok = sorted(got) == want
                        else:
                            ok = got == sorted(want, key=lambda n: start[n])
                        if not ok:
                            ctx.fail("%s-differ" % which, dict(sig, level=level, ordered=ob is not None, filtered=ft is not None),
                                     text=text, node=names[x], level=level, featuretype=ft, order_by=ob, got=got, expected=want)
        # the same questions with positional arguments, in the documented order (id, level, featuretype, order_by, reverse)
        for level in (None, 1, 2):
            kw_c = [f.id for f in db.children(names[x], level=level, featuretype="exon", order_by="start", reverse=True)]
            pos_c = [f.id for f in db.children(names[x], level, "exon", "start", True)]
            kw_p = [f.id for f in db.parents(names[x], level=level, featuretype=("gene", "mRNA"), order_by="start", reverse=False)]
            pos_p = [f.id for f in db.parents(names[x], level, ("gene", "mRNA"), "start", False)]
            ctx.check(kw_c == pos_c and kw_p == pos_p, "positional-call-differs-from-keyword-call", dict(sig, level=level), text=text,
                      node=names[x], children=[kw_c, pos_c], parents=[kw_p, pos_p])
        # Feature object as argument
        got = sorted(f.id for f in db.children(db[names[x]]))
        ctx.check(got == sorted(names[c] for c in (l1[x] | l2[x]) if c != x), "children-differ",
                  dict(sig, level=None, by_feature=True), text=text, node=names[x], got=got)
    # two result iterators alive at the same time (the usual nested walk, and a zip of two queries)
    for x in range(k):
        walked = {}
        for m in db.children(names[x], level=1):
            walked[m.id] = sorted(f.id for f in db.children(m, level=1))
        want = {names[c]: sorted(names[g] for g in l1[c]) for c in l1[x]}
        ctx.check(walked == want, "nested-iteration-differs", sig, text=text, node=names[x], got=walked, expected=want)
    if k >= 2:
        a = [f.id for f in db.children(names[0])]
        b = [f.id for f in db.parents(names[k - 1])]
        zipped = [(f.id, g.id) for f, g in zip(db.children(names[0]), db.parents(names[k - 1]))]
        ctx.check(zipped == list(zip(a, b)), "interleaved-iteration-differs", sig, text=text, got=zipped, expected=list(zip(a, b)))
    # phantom features
    try:
        db["ghost"]
        ctx.fail("phantom-feature", sig, text=text)
    except gffutils.FeatureNotFoundError:
        pass
    # iter_by_parent_childs
    got = [[f.id for f in unit] for unit in db.iter_by_parent_childs(featuretype="gene")]
    exp = []
    for n in stored:
        if ftype[n] == "gene":
            x = names.index(n)
            exp.append([n] + sorted(names[c] for c in (l1[x] | l2[x]) if c != x))
    ctx.check([[u[0]] + sorted(u[1:]) for u in got] == exp, "iter_by_parent_childs-differs", sig, text=text, got=got, expected=exp)
