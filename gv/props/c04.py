"""C04 -- primary keys follow id_spec, are unique, and look-ups are exact (E1)."""
import os

import gffutils
from gffutils.exceptions import FeatureNotFoundError

from gv.model import dbutil

ID = "C04"
RULE = (
    "Part 'gff3' (shards = id_spec form (15: None, 'ID', two lists, two dicts, ':seqid:', ':source:', list with ':seqid:', ':start:', "
    "list with ':start:' (the first line starts at 0), four callables incl. autoincrement: with a colon in the base and a list mixing "
    "callable and key) x featuretype pattern (3 quick / 4 thorough)): per line one of 7 kinds {ID only, Name only, both, neither, two "
    "ID values (the 2nd and 4th line spell them as a repeated key ID=a;ID=b, the others as a comma list; the 3rd line's two values are "
    "the same value twice, still multi-valued), empty 'ID=' with Name, empty attribute column} for 3 (quick) / 4 (thorough) lines x "
    "database {:memory:, reopened file}; the ID values contain an underscore, a quote and an escaped per-cent sign. Against a reference "
    "id handler: import rejected (ValueError) exactly when a consulted id attribute is multi-valued; stored keys in file order; key "
    "uniqueness; look-up by key and by Feature returns the exact line (two ID values in either spelling); a look-up result is the "
    "caller's own copy (editing it does not affect later look-ups); look-up by a Feature taken from another database of the same lines "
    "in reverse order (only where keys do not depend on line order); up to nine near-miss keys per key (key_1, swapped case, truncated, "
    "trailing blank, 'nope', '_' / '%' replaced by letters, a bare '%', a run of '_') must be absent. Part 'gtf' (4 shards = the "
    "disable_infer_* combinations): 3 lines each gene/transcript/exon (27 patterns; the first gene_id is the literal six characters "
    "g%2C0, which GTF must not unescape) x 5 settings {default spec, callable, dict without gene, force_gff, default spec with custom "
    "gtf keys}; keys of file lines and of derived features, look-ups and absent raw keys are checked; under the default spec a later "
    "update() naming id_spec={'exon': 'exon_id'} must key its new exon by the exon_id. Non-trivial = rejection is expected, or some "
    "line is Name-only / neither / empty ID=, or the spec is a callable; every gtf execution."
)
ASSUMPTIONS = [
    "attribute values are chosen so that reference keys never collide (collisions are C05)",
    "':field:' specs are exercised for the string columns seqid and source and the numeric column start (strand only inside a callable)",
    "on rejection only the raised exception is observed (the partially written database is not inspected)",
    "how a two-valued ID prints (comma list or repeated key) is C07's business: look-ups accept either spelling",
    "an id attribute that names the same value twice counts as several values (rejected); GTF attribute values are taken literally (a per-cent sequence is not decoded)",
]

LINEKINDS = ("id", "name", "both", "neither", "two_ids", "empty_id", "no_attrs")        # no_attrs: the ninth column is empty
PATTERNS = (("gene", "gene", "gene", "gene"), ("gene", "mRNA", "gene", "mRNA"), ("exon", "exon", "gene", "exon"),
            ("mRNA", "gene", "exon", "gene"))


def cb_none(f):
    return None


def cb_str(f):
    return "X-%s" % f.start


def cb_auto(f):
    return "autoincrement:Z:%s" % f.strand if f.featuretype == "gene" else "autoincrement:other"       # the base itself holds a colon


def cb_mixed(f):
    return None if f.featuretype == "gene" else "Y-%s" % f.start


SPECS = [
    ("None", None), ("str", "ID"), ("list", ["ID", "Name"]), ("list_rev", ["Name", "ID"]),
    ("dict_str", {"gene": "Name"}), ("dict_list", {"gene": ["ID", "Name"], "exon": "ID"}),
    (":seqid:", ":seqid:"), (":source:", ":source:"), ("list_col", ["Name", ":seqid:"]),
    (":start:", ":start:"), ("list_start", ["Name", ":start:"]),          # a numeric column; the first line starts at 0
    ("call_none", cb_none), ("call_str", cb_str), ("call_auto", cb_auto), ("list_call", [cb_mixed, "ID"]),
]


def bounds(tier):
    return dict(id_specs=[s[0] for s in SPECS], line_kinds=list(LINEKINDS), lines=3 if tier == "quick" else 4,
                featuretype_patterns=len(PATTERNS) if tier != "quick" else 3, gtf_part=True)


def shards(tier):
    npat = 3 if tier == "quick" else len(PATTERNS)
    out = [("gff3", si, pi) for si in range(len(SPECS)) for pi in range(npat)]
    out += [("gtf", k) for k in range(4)]
    return out


class Rejected(Exception):
    pass


def ref_ids(spec, feats):
    """Reference id_handler, written from the statement."""
    counters = {}

    def auto(base):
        counters[base] = counters.get(base, 0) + 1
        return "%s_%d" % (base, counters[base])

    out = []
    for ft, cols, attrs in feats:
        keys = spec
        if isinstance(spec, dict):
            if ft not in spec:
                out.append(auto(ft))
                continue
            keys = spec[ft]
        if isinstance(keys, str) or callable(keys):
            keys = [keys]
        got = None
        for k in keys:
            if callable(k):
                r = k(type("F", (), dict(featuretype=ft, start=cols["start"], strand=cols["strand"]))())
                if r:
                    got = auto(r[len("autoincrement:"):]) if r.startswith("autoincrement:") else r
                    break
            elif len(k) > 3 and k[0] == ":" and k[-1] == ":":
                got = str(cols[k[1:-1]])
                break
            elif k in attrs and attrs[k]:          # present = carries a value
                if len(attrs[k]) > 1:
                    raise Rejected(k)
                got = attrs[k][0]
                break
        out.append(got if got is not None else auto(ft))
    return out


# ID values with an SQL wildcard, a quote, a per-cent sign (written %25 in the file) and a plain one
IDV = ["i_0", "i'1", "i%2", "i3"]
_ENC = lambda v: v.replace("%", "%25")


def body_gff3(ch, ctx):
    _, si, pi = ctx.shard
    sname, spec = SPECS[si]
    nlines = 3 if ctx.tier == "quick" else 4
    pattern = PATTERNS[pi]
    feats, texts, file_texts, alt_texts = [], [], [], []
    kinds = []
    for i in range(nlines):
        kind = ch.choose("line%d" % i, LINEKINDS)
        kinds.append(kind)
        attrs = {}
        if kind in ("id", "both"):
            attrs["ID"] = [IDV[i]]
        if kind == "two_ids":
            attrs["ID"] = [IDV[i], "j%d" % i] if i != 2 else [IDV[i], IDV[i]]       # the third line carries the SAME value twice: still several values
        if kind == "empty_id":
            attrs["ID"] = []            # "ID=" : the attribute is written but carries no value
            attrs["Name"] = ["n%d" % i]
        if kind in ("name", "both"):
            attrs["Name"] = ["n%d" % i]
        if kind != "no_attrs":
            attrs["tag"] = ["t%d" % i]
        cols = dict(seqid="c%d" % i, source="s%d" % i, start=10 * i, end=10 * i + 5, strand="+-.+"[i])
        ft = pattern[i]
        feats.append((ft, cols, attrs))
        order = [k for k in ("Name", "ID", "tag") if k in attrs] if (sname == "list_rev" or kind == "empty_id") else \
                [k for k in ("ID", "Name", "tag") if k in attrs]
        texts.append("\t".join([cols["seqid"], cols["source"], ft, str(cols["start"]), str(cols["end"]), ".", cols["strand"], ".",
                                ";".join("%s=%s" % (k, ",".join(_ENC(v) for v in attrs[k])) for k in order)]))
        # what goes into the file: odd lines write their two ID values by repeating the key (ID=a;ID=b) instead of a comma list
        repeated_form = texts[-1] if kind != "two_ids" else \
            texts[-1].replace("ID=%s" % ",".join(_ENC(v) for v in attrs["ID"]), ";".join("ID=%s" % _ENC(v) for v in attrs["ID"]))
        alt_texts.append(repeated_form)            # how the line prints when the file's dialect says 'repeated keys'
        file_texts.append(repeated_form if (kind == "two_ids" and i % 2) else texts[-1])
        feats[-1] = (ft, cols, {k: v for k, v in attrs.items()})
    try:
        exp = ref_ids("ID" if spec is None else spec, feats)
    except Rejected:
        exp = None
    ctx.sample(lambda: dict(id_spec=sname, lines=texts, expected_ids=exp))
    ctx.nontrivial(exp is None or any(k in ("neither", "name", "empty_id") for k in kinds) or callable(spec))
    ctx.outcome((sname, exp is None, tuple(k for k in kinds)))
    sig = dict(spec=sname)
    wd = ctx.fresh_dir()
    path = dbutil.write_text(wd, "in.gff", "\n".join(file_texts) + "\n")
    dbfn = os.path.join(wd, "o.db") if ch.flag("file_db") else ":memory:"
    try:
        db = gffutils.create_db(path, dbfn, id_spec=spec, verbose=False)
    except ValueError as e:
        ctx.check(exp is None, "import-rejected-unexpectedly", sig, lines=texts, error=str(e)[:200], expected=exp)
        return
    if not ctx.check(exp is not None, "multi-valued-id-not-rejected", sig, lines=texts,
                     stored=[f.id for f in db.all_features()]):
        return
    if dbfn != ":memory:":
        dbutil.close_db(db)
        db = gffutils.FeatureDB(dbfn)
    feats_db = list(db.all_features())
    ids = [f.id for f in feats_db]
    if not ctx.check(ids == exp, "keys-differ-from-id_spec", sig, lines=texts, got=ids, expected=exp):
        return
    ctx.check(len(set(ids)) == len(ids), "keys-not-unique", sig, ids=ids)
    for key, text, ftext, f in zip(exp, texts, alt_texts, feats_db):
        text = text.replace(";ID=;", ";ID;")      # an empty 'ID=' is printed as a valueless flag (print round trip is C07's business)
        # (two values print as a comma list or as a repeated key, whichever the file's dialect says: also C07's business)
        ok_texts = (text, ftext)
        g = db[key]
        ctx.check(g.id == key and str(g) in ok_texts and str(db[f]) in ok_texts, "lookup-returns-other-feature", sig,
                  key=key, line=text, got=str(g))
        # what a look-up returns is the caller's own copy: editing it does not change later look-ups
        g.start = 999
        g.attributes["edited"] = ["1"]
        h = db[key]
        ctx.check(str(h) in ok_texts and h is not g, "lookup-reflects-edits-of-an-earlier-result", sig, key=key, line=text, got=str(h))
    # look-up by a Feature object that comes from ANOTHER database of the same annotation (other line order)
    path_rev = dbutil.write_text(wd, "rev.gff", "\n".join(reversed(file_texts)) + "\n")
    try:
        other = gffutils.create_db(path_rev, ":memory:", id_spec=spec, verbose=False)
    except Exception:
        other = None
    if other is not None and sname not in ("None", "dict_str", "dict_list", "call_none", "call_auto", "list_call", "str", "list", "list_rev", "list_col") or \
            (other is not None and all(k in ("id", "both") for k in kinds)):
        for f in other.all_features():
            if f.id in set(exp):
                g = db[f]
                ctx.check(g.id == f.id, "lookup-by-foreign-feature-returns-other-key", sig, wanted=f.id, got=g.id)
    idset = set(exp)
    for key in exp:
        for miss in (key + "_1", key.swapcase(), key[:-1], key + " ", "nope", key.replace("_", "x"), key.replace("%", "ab"), "%", "_" * len(key)):
            if miss in idset or not miss:
                continue
            try:
                g = db[miss]
            except FeatureNotFoundError:
                continue
            ctx.fail("absent-key-found", sig, key=miss, got=str(g))
    dbutil.close_db(db)


def _gtf_callable(f):
    if f.featuretype == "gene":
        return "G:" + f.attributes["gene_id"][0]
    if f.featuretype == "transcript":
        return "T:" + f.attributes["transcript_id"][0]
    return None


GTF_SPECS = [("default", None), ("callable", _gtf_callable), ("dict_without_gene", {"exon": "exon_id"}), ("force_gff", None),
             ("default+custom_keys", None)]          # gtf_gene_key / gtf_transcript_key changed, id_spec left at its documented default


def body_gtf(ch, ctx):
    _, k = ctx.shard
    fts = [ch.choose("ft%d" % i, ("gene", "transcript", "exon")) for i in range(3)]
    sname, spec = ch.choose("id_spec", GTF_SPECS)
    flags = dict(disable_infer_genes=bool(k & 1), disable_infer_transcripts=bool(k & 2))
    texts, exp, counters = [], [], {}

    def auto(base):
        counters[base] = counters.get(base, 0) + 1
        return "%s_%d" % (base, counters[base])

    for i, ft in enumerate(fts):
        texts.append('c1\ts\t%s\t%d\t%d\t.\t+\t.\tgene_id "g%d"; transcript_id "t%d"; exon_id "x%d";' % (ft, 10 * i + 1, 10 * i + 5, i, i, i))
        if i == 0:
            texts[-1] = texts[-1].replace('"g0"', '"g%2C0"')          # GTF has no escapes: the id is these six characters
        if sname == "force_gff":
            exp.append(auto(ft))                       # GFF3 rules with the default spec 'ID': no ID attribute anywhere
        elif sname == "callable":
            exp.append({"gene": "G:" + ("g%d" % i if i else "g%2C0"), "transcript": "T:t%d" % i}.get(ft) or auto(ft))
        elif sname == "dict_without_gene":
            exp.append("x%d" % i if ft == "exon" else auto(ft))
        else:
            exp.append({"gene": "g%d" % i if i else "g%2C0", "transcript": "t%d" % i}.get(ft) or auto(ft))
    if sname == "default+custom_keys":
        texts = [t.replace('exon_id "x', 'gname "y%d"; tname "x' % i) for i, t in enumerate(texts)]
    # derived features (only exons give rise to them) take their key from the same id_spec
    derived = []
    if sname != "force_gff":
        exon_idx = [i for i, ft in enumerate(fts) if ft == "exon"]
        for i in exon_idx:
            for kind, disabled, raw in (("transcript", flags["disable_infer_transcripts"], "t%d" % i), ("gene", flags["disable_infer_genes"], "g%d" % i if i else "g%2C0")):
                if disabled:
                    continue
                if sname == "callable":
                    derived.append(("T:" if kind == "transcript" else "G:") + raw)
                elif sname == "default+custom_keys":
                    derived.append(None)             # derived features carry only the custom keys: auto-numbered under the default spec
                elif sname == "dict_without_gene":
                    derived.append(None)             # auto-numbered; order of derivation is not demanded
                else:
                    derived.append(raw)
    wd = ctx.fresh_dir()
    path = dbutil.write_text(wd, "in.gtf", "\n".join(texts) + "\n")
    kw = dict(flags)
    if spec is not None:
        kw["id_spec"] = spec
    if sname == "force_gff":
        kw["force_gff"] = True
    if sname == "default+custom_keys":
        kw.update(gtf_gene_key="gname", gtf_transcript_key="tname")
    db = gffutils.create_db(path, ":memory:", verbose=False, **kw)
    got = [f.id for f in db.all_features() if f.source != "gffutils_derived"]
    got_derived = sorted(f.id for f in db.all_features() if f.source == "gffutils_derived")
    ctx.sample(lambda: dict(format="gtf", lines=texts, flags=flags, id_spec=sname, expected_ids=exp, expected_derived=derived))
    ctx.nontrivial()
    ctx.outcome(("gtf", tuple(fts), k, sname))
    sig = dict(spec="gtf-" + sname)
    ctx.check(got == exp, "keys-differ-from-id_spec", sig, lines=texts, got=got, expected=exp)
    if None not in derived:
        ctx.check(got_derived == sorted(derived), "derived-keys-differ-from-id_spec", sig, lines=texts, got=got_derived, expected=sorted(derived))
    else:
        ctx.check(len(got_derived) == len(derived) and all("_" in x for x in got_derived), "derived-keys-differ-from-id_spec", sig,
                  lines=texts, got=got_derived, n_expected=len(derived))
    for key, text in zip(exp, texts):
        try:
            ok = str(db[key]).split("\t")[:5] == text.split("\t")[:5]
        except FeatureNotFoundError:
            ok = False
        ctx.check(ok, "lookup-returns-other-feature", sig, key=key, line=text)
    if sname == "default":
        # a later update() naming its own id_spec: the new exon is keyed by its exon_id, not by the default for GTF databases
        later = dbutil.write_text(wd, "later.gtf", 'c9\ts\texon\t500\t510\t.\t+\t.\tgene_id "g9"; transcript_id "t9"; exon_id "E9";\n')
        db.update(later, id_spec={"exon": "exon_id"}, make_backup=False, verbose=False, disable_infer_genes=True, disable_infer_transcripts=True)
        try:
            ok = (db["E9"].start, db["E9"].end) == (500, 510)
        except FeatureNotFoundError:
            ok = False
        ctx.check(ok, "keys-differ-from-id_spec", dict(sig, after_update=True), got=[f.id for f in db.all_features()][-3:], expected="E9")
    if sname in ("callable", "force_gff"):
        for raw in ("g0", "t0", "g1", "t1"):
            if raw in exp or raw in got_derived:
                continue
            try:
                db[raw]
                ctx.fail("absent-key-found", sig, key=raw)
            except FeatureNotFoundError:
                pass


def body(ch, ctx):
    if ctx.shard[0] == "gff3":
        body_gff3(ch, ctx)
    else:
        body_gtf(ch, ctx)
