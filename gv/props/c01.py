"""C01 -- import fidelity: every input line is stored once and comes back unchanged (E1)."""
import os

import gffutils

from gv.model import dbutil, files, grammar as G

ID = "C01"
RULE = (
    "One part; shards = dialect (48) x file shape (6: same, late, flags, escapes, dots_extras, parent). Per shard: (line count n, "
    "checklines) from 5 pairs (quick: (1,0),(2,1),(4,2),(4,10),(6,0)) / 24 pairs (thorough: n in {1,2,4,6} x checklines in "
    "{0,1,2,n-1,n,n+1,10}, plus (12,10)) x database kind {:memory:, file, file closed and reopened} x merge_strategy (quick: error, "
    "merge, create_unique; thorough: all 5) x sort_attribute_values (quick: False, True-with-unsorted-input; thorough: False, True, "
    "True-with-unsorted-input). Every execution imports a freshly written file (path input, keep_order=True) with the real create_db. "
    "all_features() is compared line by line with the generator's expectation: feature count, 8 columns, extra columns, ordered "
    "attributes, byte-identical print (for unsorted input only the first 8 printed columns); printing must change neither the feature "
    "nor the database dialect; while one all_features() iteration is open, a second complete all_features() iteration and a look-up "
    "db[id] on the same object must give the expected ids (nested), and two all_features() results consumed in lockstep (zip) must "
    "agree; for 'reopen' the same checks are repeated on the reopened FeatureDB and the canonical content must be unchanged; except for "
    "unsorted input the printed features are re-imported and must give equal features+relations and an equal dialect. Non-trivial = the "
    "file has more lines than the dialect-peek window (n > checklines+1), or a non-default dialect dimension, or the database is "
    "reopened from disk."
)
ASSUMPTIONS = [
    "files satisfy the consistency conditions (a)/(b) of DESIGN section 2 (every line exhibits the dialect; keys appear in first-seen order)",
    "ids are unique, so all five merge strategies must keep every line",
    "input is given as a path; other input forms are C13",
]
STRATS = ("error", "merge", "create_unique", "replace", "warning")
KINDS = ("memory", "file", "reopen")


def pairs(tier):
    if tier == "quick":
        return [(1, 0), (2, 1), (4, 2), (4, 10), (6, 0)]
    out = []
    for n in (1, 2, 4, 6):
        for cl in sorted({0, 1, 2, n - 1, n, n + 1, 10}):
            if cl >= 0:
                out.append((n, cl))
    return out + [(12, 10)]


def bounds(tier):
    return dict(dialects=len(G.ALL), shapes=list(files.SHAPES), n_checklines_pairs=pairs(tier),
                kinds=list(KINDS),
                strategies=list(STRATS if tier != "quick" else STRATS[:3]),
                sort_attribute_values=[False, "True with unsorted input"] if tier == "quick" else [False, True, "True with unsorted input"])


def shards(tier):
    return [(di, sh) for di in range(len(G.ALL)) for sh in files.SHAPES]


def observe(ctx, db, lines, texts, sig, where, unsorted=False):
    dialect_before = repr(db.dialect)
    feats = list(db.all_features())
    if not ctx.check(len(feats) == len(lines), "feature-count-differs", dict(sig, where=where),
                     expected=len(lines), got=len(feats), file=texts):
        return
    for i, (f, (cols, items, extras), text) in enumerate(zip(feats, lines, texts)):
        exp_cols = [cols[0], cols[1], cols[2], None if cols[3] == "." else int(cols[3]),
                    None if cols[4] == "." else int(cols[4]), cols[5], cols[6], cols[7]]
        o = dbutil.feature_obs(f)
        ctx.check(o["cols"] == exp_cols, "columns-differ", dict(sig, where=where), line=text, got=o["cols"], index=i)
        ctx.check(o["extra"] == list(extras), "extras-differ", dict(sig, where=where), line=text, got=o["extra"], index=i)
        exp = list(G.expected_attrs(items).items())
        ctx.check(o["attrs"] == exp, "attributes-differ", dict(sig, where=where), line=text, got=o["attrs"], expected=exp, index=i)
        printed = str(f)
        if unsorted:
            # sort_attribute_values with unsorted input: the print shows sorted values; identity is not demanded
            cols = printed.split("\t")
            ctx.check(cols[:8] == text.split("\t")[:8], "printed-line-differs", dict(sig, where=where, unsorted=True), line=text, printed=printed)
        else:
            ctx.check(printed == text, "printed-line-differs", dict(sig, where=where, beyond_window=i > sig["checklines"]),
                      line=text, printed=printed, index=i, file=texts)
        # printing is an observation: it changes neither the feature nor the dialect shared by the database
        after = dbutil.feature_obs(f)
        ctx.check(after["attrs"] == exp and str(f) == printed, "printing-changed-the-feature", dict(sig, where=where), line=text,
                  after=after["attrs"], expected=exp)
    ctx.check(repr(db.dialect) == dialect_before, "printing-changed-the-database-dialect", dict(sig, where=where),
              before=dialect_before, after=repr(db.dialect))
    # the usual loop: while one iteration over the database is open, other results of the same object are opened and consumed
    ids = [f.id for f in feats]
    outer = []
    for f in db.all_features():
        inner = [g.id for g in db.all_features()]
        looked_up = db[f.id].id
        if inner != ids or looked_up != f.id:
            ctx.fail("nested-iteration-differs", dict(sig, where=where, which="inner"), got=inner, expected=ids, looked_up=looked_up)
            break
        outer.append(f.id)
    ctx.check(outer == ids, "nested-iteration-differs", dict(sig, where=where, which="outer"), got=outer, expected=ids)
    lock = [(a.id, b.id) for a, b in zip(db.all_features(), db.all_features())]
    ctx.check(lock == [(i, i) for i in ids], "nested-iteration-differs", dict(sig, where=where, which="lockstep"), got=lock[:4])
    if False:
        pass


def body(ch, ctx):
    di, shape = ctx.shard
    d = G.ALL[di]
    tier = ctx.tier
    n, cl = ch.choose("n_checklines", pairs(tier))
    kind = ch.choose("kind", KINDS)
    strat = ch.choose("strategy", STRATS[:3] if tier == "quick" else STRATS)
    sav = ch.choose("sort_attribute_values", (False, "unsorted") if tier == "quick" else (False, True, "unsorted"))
    lines = files.file_lines(d, shape, n)
    unsorted = sav == "unsorted"
    if unsorted:
        # values deliberately NOT in sorted order, printed with sort_attribute_values=True
        lines = [(c, [(k, sorted(v, key=lambda x: G.value_text(d, x), reverse=True)) for k, v in items], e) for c, items, e in lines]
        sav = True
    elif sav:
        lines = [(c, [(k, sorted(v, key=lambda x: G.value_text(d, x))) for k, v in items], e) for c, items, e in lines]
    texts = files.render(d, lines)
    wd = ctx.fresh_dir()
    path = dbutil.write_text(wd, "in.gff", "\n".join(texts) + "\n")
    sig = dict(style=d.style, sep=d.sep, trailing=d.trailing, multi=d.multi, shape=shape, checklines=cl, kind=kind)
    ctx.sample(lambda: dict(dialect=list(d), shape=shape, n=n, checklines=cl, kind=kind, strategy=strat,
                            sort_attribute_values=sav, first_lines=texts[:2]))
    ctx.nontrivial(n > cl + 1 or d != G.ALL[0] or kind == "reopen")
    ctx.outcome((d.style, shape, n > cl + 1, kind))
    dbfn = ":memory:" if kind == "memory" else os.path.join(wd, "out.db")
    # sort_attribute_values is only named when True (unsorted is the documented default)
    kw = dict(keep_order=True, merge_strategy=strat, checklines=cl, verbose=False, **(dict(sort_attribute_values=True) if sav else {}))
    db = gffutils.create_db(path, dbfn, **kw)
    observe(ctx, db, lines, texts, sig, "fresh", unsorted)
    first = dbutil.canon(db)
    if kind == "reopen":
        dbutil.close_db(db)
        db = gffutils.FeatureDB(dbfn, keep_order=True, **(dict(sort_attribute_values=True) if sav else {}))
        observe(ctx, db, lines, texts, sig, "reopened", unsorted)
        ctx.check(dbutil.canon(db) == first, "content-changed-by-reopen", sig)
    if unsorted:
        dbutil.close_db(db)
        return
    # re-importing the printed features gives an equivalent database
    printed = [str(f) for f in db.all_features()]
    path2 = dbutil.write_text(wd, "printed.gff", "\n".join(printed) + "\n")
    db2 = gffutils.create_db(path2, ":memory:", **kw)
    a, b = dbutil.content_only(first), dbutil.content_only(dbutil.canon(db2))
    ctx.check(a == b, "reimport-not-equivalent", sig, printed=printed[:4],
              first=a["features"][:2], second=b["features"][:2], rel1=a["relations"][:6], rel2=b["relations"][:6])
    ctx.check(db2.dialect == db.dialect, "reimport-dialect-differs", sig, a=db.dialect, b=db2.dialect)
    dbutil.close_db(db)
    dbutil.close_db(db2)
