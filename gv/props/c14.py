"""C14 -- directives are all kept in order; comments, blanks and FASTA are not features (E1)."""
import os

import gffutils
from gffutils.exceptions import EmptyInputError

from gv.model import dbutil

ID = "C14"
RULE = (
    "One part; shards = input form x checklines x length x first one or two line kinds. Every sequence of length 0..4 (quick) / 0..5 "
    "(thorough) over 10 line kinds {##directive, ###, bare ##, #comment, #! pragma comment, blank, feature, ##FASTA, >header, "
    "'##FASTA-index ...' (an ordinary directive: only the exact line ##FASTA starts the sequence part)} (a sequence line is appended "
    "after a FASTA marker or header) x checklines {0,1,10} x input form {path, from_string; the empty string is skipped}; additionally "
    "a gzip path with CRLF line ends for lengths 0..3 at checklines 1, and in thorough all sequences of length 6 for path input with "
    "checklines 0 and 1. Directive texts alternately end in a blank or hold U+0085; comment lines hold U+2028 followed by "
    "feature-looking text, pragma comments a form feed followed by '##...' (none of these is a line end). Feature lines are written as "
    "GTF when length+checklines is odd (not for the gzip form). Each execution drives DataIterator (iterated twice, and a third time "
    "after a second iterator over another input was created and consumed; each keeps its own directives), create_db(:memory:) and "
    "create_db(file)+reopen; directives (in order, text after '##' verbatim) and printed features are compared with a reference "
    "classifier written from the statement; create_db must raise EmptyInputError exactly when there is no feature line. Non-trivial = a "
    "directive lies after the first checklines+1 features, or something follows a FASTA marker/header, or comments/blanks occur "
    "together with features."
)
ASSUMPTIONS = [
    "'###' begins with '##' and is therefore a directive '#', as the statement words it",
    "an input without any feature line makes create_db raise the documented empty-input error; nothing else may raise",
    "the empty text is not given as from_string input (an empty string is taken for a path)",
    "only the exact line '##FASTA' (or a '>' header) starts the sequence part; a directive whose text merely begins with FASTA is a directive",
]

KINDS = "DTECPBFAHG"     # E = a bare "##" line (directive with empty text); P = a "#!pragma" comment; G = a directive whose text merely begins with FASTA


def render(seq, gtf=False):
    lines, nf, nd = [], 0, 0
    for k in seq:
        if k == "D":
            nd += 1
            # odd ones end in a blank (trailing blanks belong to the directive); even ones hold a character that only
            # str.splitlines() takes for a line end
            lines.append(("##dir%d v%d " if nd % 2 else "##dir%d v%d\x85w") % (nd, nd))
        elif k == "T":
            lines.append("###")
        elif k == "E":
            lines.append("##")
        elif k == "C":
            lines.append("#comment %d\u2028c9\ts\tgene\t1\t2\t.\t+\t.\tID=not-a-feature" % len(lines))      # U+2028 is not a line end
        elif k == "P":
            lines.append("#!genome-build GRCh%d\x0c##not-a-directive" % len(lines))        # nor is a form feed
        elif k == "B":
            lines.append("")
        elif k == "F":
            nf += 1
            if gtf:
                lines.append('c1\ts\tCDS\t%d\t%d\t.\t+\t0\tgene_id "f%d"; transcript_id "n%d";' % (nf * 10, nf * 10 + 5, nf, nf))
            else:
                lines.append("c1\ts\tgene\t%d\t%d\t.\t+\t.\tID=f%d;Name=n%d" % (nf * 10, nf * 10 + 5, nf, nf))
        elif k == "A":
            lines.append("##FASTA")
        elif k == "G":
            lines.append("##FASTA-index genome.fa.fai")       # an ordinary directive: only the exact line '##FASTA' starts the sequence part
        elif k == "H":
            lines.append(">seq%d" % len(lines))
    if "A" in seq or "H" in seq:
        lines.append("ACGTNNACGT")
    return lines


def expected(lines):
    dirs, feats = [], []
    for ln in lines:
        if ln == "##FASTA" or ln.startswith(">"):
            break
        if ln.startswith("##"):
            dirs.append(ln[2:])
        elif ln.startswith("#") or ln == "":
            continue
        else:
            feats.append(ln)
    return dirs, feats


def maxn(tier):
    return 4 if tier == "quick" else 5


def bounds(tier):
    return dict(line_kinds=list(KINDS), max_len=maxn(tier), checklines=[0, 1, 10], forms=["path", "from_string", "gzip path with CRLF line ends (length <= 3)"],
                extra_len6="full alphabet, path form, checklines 0 and 1" if tier != "quick" else None)


def shards(tier):
    out = []
    for form in ("path", "string", "gz_crlf"):
        for cl in ((0, 1, 10) if form != "gz_crlf" else (1,)):
            out.append(("full", form, cl, 0, ""))
            for n in range(1, (maxn(tier) if form != "gz_crlf" else 3) + 1):
                for a in KINDS:
                    if n >= 3:
                        out.extend(("full", form, cl, n, a + b) for b in KINDS)
                    else:
                        out.append(("full", form, cl, n, a))
    if tier != "quick":
        for cl in (0, 1):
            for a in KINDS:
                for b in KINDS:
                    out.append(("full", "path", cl, 6, a + b))
    return out


def body(ch, ctx):
    mode, form, cl, n, head = ctx.shard
    alpha = KINDS if mode == "full" else "DCBFA"
    seq = head + "".join(ch.choose("k%d" % i, alpha) for i in range(len(head), n))
    gtf = (n + cl) % 2 == 1 and form != "gz_crlf"          # half of the shards write their feature lines as GTF
    lines = render(seq, gtf)
    text = "\n".join(lines) + ("\n" if lines else "")
    exp_dirs, exp_feats = expected(lines)
    wd = ctx.fresh_dir()
    if form == "path":
        data, kw = dbutil.write_text(wd, "in.gff", text), {}
    elif form == "gz_crlf":
        import gzip
        data, kw = os.path.join(wd, "in.gff.gz"), {}
        with gzip.open(data, "wb") as fh:
            fh.write(text.replace("\n", "\r\n").encode("utf-8"))     # DOS line ends, read in binary mode
    else:
        data, kw = text, dict(from_string=True)
    # facts about the input, computed independently of the implementation
    nf = 0
    dir_after_window = False
    for ln in lines:
        if ln == "##FASTA" or ln.startswith(">"):
            break
        if ln.startswith("##") and nf >= cl + 1:
            dir_after_window = True
        if ln and not ln.startswith("#"):
            nf += 1
    after_marker = any(k in "AH" for k in seq[:-1])
    ctx.nontrivial(dir_after_window or after_marker or ("F" in seq and any(k in "CB" for k in seq)))
    ctx.sample(lambda: dict(kinds=seq, checklines=cl, form=form, text=text))
    sig = dict(form=form, directive_after_window=dir_after_window, fasta=("A" in seq or "H" in seq), gtf=gtf)
    ctx.outcome((len(exp_dirs), len(exp_feats), dir_after_window, after_marker))

    if form == "string" and not text:
        return          # an empty string is not a meaningful from_string input (it is taken as a path)
    it = gffutils.DataIterator(data, checklines=cl, **kw)
    for rnd in (1, 2):
        got = [str(f) for f in it]
        ctx.check(got == exp_feats, "iterator-features-differ", dict(sig, round=rnd), text=text, got=got, expected=exp_feats)
        ctx.check(list(it.directives) == exp_dirs, "iterator-directives-differ", dict(sig, round=rnd), text=text,
                  got=list(it.directives), expected=exp_dirs)
    # another iterator over another file lives at the same time: each keeps its own directives
    other_text = "##other directive\nc9\ts\tgene\t1\t2\t.\t+\t.\tID=o1\n"
    if form == "string":
        other = gffutils.DataIterator(other_text, checklines=cl, from_string=True)
    else:
        other = gffutils.DataIterator(dbutil.write_text(wd, "other.gff", other_text), checklines=cl)
    n_other = len(list(other))
    again = [str(f) for f in it]
    ctx.check(again == exp_feats, "iterator-features-changed-by-another-iterator", sig, text=text, got=again, expected=exp_feats)
    ctx.check(n_other == 1 and list(other.directives) == ["other directive"], "second-iterator-wrong", sig, got=list(other.directives))
    ctx.check(list(it.directives) == exp_dirs, "iterator-directives-changed-by-another-iterator", sig, text=text,
              got=list(it.directives), expected=exp_dirs)
    for kind in ("memory", "file"):
        dbfn = ":memory:" if kind == "memory" else os.path.join(wd, "o.db")
        try:
            db = gffutils.create_db(data, dbfn, checklines=cl, verbose=False, force=True, **kw)
        except EmptyInputError:
            ctx.check(not exp_feats, "empty-input-error-on-nonempty-input", sig, text=text)
            continue
        if not ctx.check(bool(exp_feats), "no-error-on-input-without-features", sig, text=text):
            continue
        ctx.check(list(db.directives) == exp_dirs, "db-directives-differ", dict(sig, where=kind), text=text,
                  got=list(db.directives), expected=exp_dirs, checklines=cl)
        got = [str(f) for f in db.all_features()]
        ctx.check(got == exp_feats, "db-features-differ", dict(sig, where=kind), text=text, got=got, expected=exp_feats)
        dbutil.close_db(db)
        if kind == "file":
            db = gffutils.FeatureDB(dbfn)
            ctx.check(list(db.directives) == exp_dirs, "db-directives-differ", dict(sig, where="reopened"), text=text,
                      got=list(db.directives), expected=exp_dirs, checklines=cl)
            got = [str(f) for f in db.all_features()]
            ctx.check(got == exp_feats, "db-features-differ", dict(sig, where="reopened"), text=text, got=got)
            dbutil.close_db(db)
