"""C05 -- duplicate keys are resolved exactly as the chosen merge_strategy says (E1 over arrival sequences)."""
import json
import os
import sqlite3

import gffutils

from gv.model import dbutil
from gv.model.merge_ref import Ref, RefAbort, COLNAMES

ID = "C05"
RULE = (
    "Part 'seq' (shards = strategy setting (10) x importer (4; the fourth only for the six merge settings) x kind of the second "
    "arrival): arrival sequences for one key X: a fixed base arrival followed by 1..2 (quick) / 1..3 (thorough) arrivals from an "
    "alphabet of 28 (quick) / 40 (thorough) kinds = {same columns, different start, different source, different strand, undefined '.' "
    "coordinates, only the frame differs} x attribute sets (2 quick / 3 thorough; one names the same value twice on one line) x {Parent "
    "p1, p2}, plus explicit ID=X_1 and ID=X_2 features and two arrivals naming no parent; when the second arrival is the explicit X_1, "
    "optionally X_2 is inserted right after it (X, X_1, X_2 all taken: the next free key is X_3); strategy settings = error, warning, "
    "replace, create_unique, merge with force_merge_fields in {none, source, strand, source+strand, strand+source}, and merge with "
    "verbose='debug'; importer = GFF3 create_db, GFF3 create_db of a prefix + update() of the rest at every split (file database, "
    "observed through a second connection), GTF create_db (inference off), GFF3 create_db with a transform moving every coordinate by "
    "200000 (another bin). Compared with a reference model of the strategies: abort under 'error', no other exception (an sqlite "
    "IntegrityError is a finding), stored ids (none lost / invented), every column (force-merged columns as repeat-free comma sets), "
    "attribute values as sets, repeat-free on features that received a merge and exactly as written on features that did not, and "
    "level-1/level-2 relations. Part 'long' (9 shards = importer (first three) x {create_unique, merge, merge forcing source}): 13 "
    "column-distinct arrivals for one key (X, X_1..X_12) followed by 1-3 arrivals agreeing with late ones (3 tails; update split after "
    "7); stored ids and tag values are compared. Non-trivial = a collision occurred; every long execution."
)
ASSUMPTIONS = [
    "attribute value order inside a merged key is not demanded (compared as sets); force-merged columns are compared as comma-split sets that must be repeat-free; "
    "a feature nothing was merged into is compared, as a multiset, with the values as written on its line",
    "position of a replaced/merged feature in iteration order is not demanded",
    "relations are compared for every stored duplicate-key feature at level 1 and level 2 (GFF3: grandparents gp1/gp2 of the named parents; GTF: gene_id)",
    "when the generated '<key>_n' equals an id that is already stored, the next free n is expected (all features are kept)",
]

BASE = dict(seqid="c1", source="s1", featuretype="exon", start=10, end=50, score=".", strand="+", frame=".")
COLVARS = ({}, {"start": 11}, {"source": "s2"}, {"strand": "-"}, {"start": ".", "end": "."}, {"frame": "1"})      # undefined coordinates; only the frame differs
ATTRVARS_Q = ({"tag": ["a"]}, {"tag": ["b"], "note": ["n", "n"]})          # one line naming the same value twice
ATTRVARS_T = ATTRVARS_Q + ({"tag": ["a"], "note": ["n"]},)
STRATS = [("error", ()), ("warning", ()), ("replace", ()), ("create_unique", ()),
          ("merge", ()), ("merge", ("source",)), ("merge", ("strand",)), ("merge", ("source", "strand")),
          ("merge+debuglog", ()),
          ("merge", ("strand", "source"))]        # the same two columns named in non-alphabetical order
SHIFT = 200000          # importer 'gff_shift': every coordinate is moved (into another bin) by a transform during the import
                # the same 'merge' with verbose="debug" (logging must not change the result)


GRAND = {"p1": "gp1", "p2": "gp2"}
# GFF3 files start with the two-level ancestry of the parents the arrivals name
STATIC_GFF = ["c1\ts1\tgene\t1\t90\t.\t+\t.\tID=gp1", "c1\ts1\tgene\t1\t90\t.\t+\t.\tID=gp2",
              "c1\ts1\tmRNA\t1\t90\t.\t+\t.\tID=p1;Parent=gp1", "c1\ts1\tmRNA\t1\t90\t.\t+\t.\tID=p2;Parent=gp2"]
STATIC_IDS = ("gp1", "gp2", "p1", "p2")
STATIC_REL = {("gp1", "p1", 1), ("gp2", "p2", 1)}


def arrival_kinds(tier):
    av = ATTRVARS_Q if tier == "quick" else ATTRVARS_T
    kinds = [(ci, ai, p) for ci in range(len(COLVARS)) for ai in range(len(av)) for p in ("p1", "p2")]
    return kinds + ["explicit", "explicit2", (0, 0, None), (1, 0, None)]        # explicit ids X_1 / X_2; the last two name no parent at all


def bounds(tier):
    return dict(arrival_kinds=len(arrival_kinds(tier)), later_arrivals="1..2" if tier == "quick" else "1..3",
                strategies=[[s, list(f)] for s, f in STRATS], importers=["gff_create", "gff_update@every split", "gtf_create", "gff_shift (merge family only)"])


def shards(tier):
    nk = len(arrival_kinds(tier))
    out = [("long", imp, si) for imp in ("gff_create", "gff_update", "gtf_create") for si in (3, 4, 5)]
    for si in range(len(STRATS)):
        for imp in ("gff_create", "gff_update", "gtf_create", "gff_shift"):
            if imp == "gff_shift" and not STRATS[si][0].startswith("merge"):
                continue                 # the shifted import matters where columns are compared: the 'merge' family
            for k0 in range(nk):
                out.append((si, imp, k0))
    return out


def make_arrival(kind, tier, gtf):
    av = ATTRVARS_Q if tier == "quick" else ATTRVARS_T
    idkey, pkey = ("exon_id", "transcript_id") if gtf else ("ID", "Parent")
    if kind in ("explicit", "explicit2"):
        cols = dict(BASE)
        key = "X_1" if kind == "explicit" else "X_2"
        attrs = {idkey: [key], "tag": ["a"], pkey: ["p1"]}
        if gtf:
            attrs["gene_id"] = [GRAND["p1"]]
        return dict(key=key, cols=cols, attrs=attrs, parents=["p1"])
    ci, ai, p = kind
    cols = dict(BASE)
    cols.update(COLVARS[ci])
    attrs = {idkey: ["X"]}
    attrs.update({k: list(v) for k, v in av[ai].items()})
    if p is None:
        return dict(key="X", cols=cols, attrs=attrs, parents=[])
    attrs[pkey] = [p]
    if gtf:
        attrs["gene_id"] = [GRAND[p]]
    return dict(key="X", cols=cols, attrs=attrs, parents=[p])


def render(a, gtf):
    c = a["cols"]
    if gtf:
        at = " ".join('%s "%s";' % (k, ",".join(v)) for k, v in a["attrs"].items())
    else:
        at = ";".join("%s=%s" % (k, ",".join(v)) for k, v in a["attrs"].items())
    return "\t".join([c["seqid"], c["source"], c["featuretype"], str(c["start"]), str(c["end"]), c["score"], c["strand"], c["frame"], at])


def observe(db):
    c = dbutil.canon(db)
    feats = {}
    for row in c["features"]:
        fid = row[0]
        cols = dict(zip(COLNAMES, ["." if x is None else str(x) for x in row[1:9]]))      # undefined coordinates are stored as NULL
        feats[fid] = (cols, {k: list(v) for k, v in row[9]})
    rels = {(p, ch, lv) for (p, ch, lv) in c["relations"] if ch in feats}
    return feats, rels


def body_long(ch, ctx):
    """Thirteen column-distinct arrivals for one key (X, X_1 .. X_12), then arrivals agreeing with late ones."""
    _, imp, si = ctx.shard
    strategy, fmf = STRATS[si]
    gtf = imp == "gtf_create"
    repeat = ch.choose("then_agreeing_with", ((10,), (11, 12), (0, 12, 9)))
    idkey, pkey = ("exon_id", "transcript_id") if gtf else ("ID", "Parent")
    arrivals = []
    for i in list(range(13)) + list(repeat):
        cols = dict(BASE)
        cols["start"] = 10 + i
        attrs = {idkey: ["X"], "tag": ["t%d" % len(arrivals)], pkey: ["p1"]}
        if gtf:
            attrs["gene_id"] = [GRAND["p1"]]
        arrivals.append(dict(key="X", cols=cols, attrs=attrs, parents=["p1"]))
    texts = [render(a, gtf) for a in arrivals]
    ref = Ref(strategy, fmf)
    for a in arrivals:
        ref.arrive(a)
    ctx.sample(lambda: dict(long_sequence=True, strategy=strategy, importer=imp, n=len(arrivals), repeat=list(repeat)))
    ctx.nontrivial()
    ctx.outcome(("long", strategy, imp, len(ref.store)))
    sig = dict(strategy=strategy, fmf=",".join(fmf), importer=imp.split("_")[0], via_update=imp == "gff_update", long=True)
    wd = ctx.fresh_dir()
    kw = dict(merge_strategy=strategy, verbose=False)
    if fmf:
        kw["force_merge_fields"] = list(fmf)
    if gtf:
        kw.update(id_spec={"exon": "exon_id"}, disable_infer_genes=True, disable_infer_transcripts=True)
    if imp == "gff_update":
        db = gffutils.create_db(dbutil.write_text(wd, "a.gff", "\n".join(STATIC_GFF + texts[:7]) + "\n"), os.path.join(wd, "o.db"), **kw)
        db.update(dbutil.write_text(wd, "b.gff", "\n".join(texts[7:]) + "\n"), make_backup=False, **kw)
    else:
        db = gffutils.create_db(dbutil.write_text(wd, "a.g", "\n".join(([] if gtf else STATIC_GFF) + texts) + "\n"), ":memory:", **kw)
    feats, rels = observe(db)
    dbutil.close_db(db)
    for sid in STATIC_IDS:
        feats.pop(sid, None)
    exp = ref.expected()
    ctx.check(sorted(feats) == sorted(exp), "feature-lost" if set(exp) - set(feats) else "feature-invented", sig,
              got=sorted(feats), expected=sorted(exp))
    for fid, (ecols, eattrs, eparents) in exp.items():
        if fid in feats:
            gv = feats[fid][1].get("tag", [])
            ctx.check(set(gv) == set(eattrs.get("tag", ())), "attribute-values-differ", dict(sig, key="other", lost=True), id=fid,
                      got=sorted(gv), expected=sorted(eattrs.get("tag", ())))


def _shift(f):
    if f.start is not None:
        f.start += SHIFT
    if f.end is not None:
        f.end += SHIFT
    return f


def body(ch, ctx):
    if ctx.shard[0] == "long":
        return body_long(ch, ctx)
    si, imp, k0 = ctx.shard
    strategy, fmf = STRATS[si]
    verbose = False
    if strategy == "merge+debuglog":
        strategy, verbose = "merge", "debug"
    gtf = imp == "gtf_create"
    kinds = arrival_kinds(ctx.tier)
    maxlater = 2 if ctx.tier == "quick" else 3
    nlater = ch.choose("n_later", range(1, maxlater + 1))
    seq = [kinds[0], kinds[k0]] + [ch.choose("arrival%d" % i, kinds) for i in range(2, nlater + 1)]
    if kinds[k0] == "explicit" and ch.flag("X_2_taken_as_well"):
        seq.insert(2, "explicit2")          # X, X_1 and X_2 are all stored before the later arrivals: the next free key is X_3
    arrivals = [make_arrival(k, ctx.tier, gtf) for k in seq]
    split = None
    if imp == "gff_update":
        split = ch.choose("split", range(1, len(arrivals)))
    texts = [render(a, gtf) for a in arrivals]
    # reference
    ref = Ref(strategy, fmf)
    abort_at = None
    for i, a in enumerate(arrivals):
        try:
            ref.arrive(a)
        except RefAbort:
            abort_at = i
            break
    ctx.sample(lambda: dict(strategy=strategy, force_merge_fields=list(fmf), importer=imp, split=split, lines=texts))
    ctx.nontrivial(ref.collided)
    ctx.outcome((strategy, fmf, imp, abort_at is not None, ref.explicit_collision, ref.third_into_suffix, len(ref.store)))
    sig = dict(strategy=strategy, fmf=",".join(fmf), importer=imp.split("_")[0], via_update=imp == "gff_update")
    wd = ctx.fresh_dir()
    kw = dict(merge_strategy=strategy, verbose=verbose)
    if fmf:
        kw["force_merge_fields"] = list(fmf)
    if gtf:
        kw.update(id_spec={"exon": "exon_id"}, disable_infer_genes=True, disable_infer_transcripts=True)
    raised = None
    db = None
    try:
        if imp == "gff_update":
            p1 = dbutil.write_text(wd, "a.gff", "\n".join(STATIC_GFF + texts[:split]) + "\n")
            p2 = dbutil.write_text(wd, "b.gff", "\n".join(texts[split:]) + "\n")
            db = gffutils.create_db(p1, os.path.join(wd, "o.db"), **kw)
            ukw = dict(kw)
            db.update(p2, make_backup=False, **ukw)
        else:
            p = dbutil.write_text(wd, "a.g", "\n".join(([] if gtf else STATIC_GFF) + texts) + "\n")
            if imp == "gff_shift":
                kw["transform"] = _shift
            db = gffutils.create_db(p, ":memory:", **kw)
    except sqlite3.IntegrityError as e:
        ctx.fail("uncaught-integrity-error", dict(sig, generated_key_equals_explicit_id=ref.explicit_collision), lines=texts,
                 message=str(e)[:200])
        return
    except ValueError as e:
        raised = e
    if abort_at is not None:
        ctx.check(raised is not None, "error-strategy-did-not-abort", sig, lines=texts)
        return
    if not ctx.check(raised is None, "unexpected-exception", dict(sig, exc=type(raised).__name__), lines=texts, message=str(raised)[:300]):
        return
    exp = ref.expected()
    merged_ids = ref.merged_ids()
    # file databases are read through a second connection (what another process would see), in-memory ones through their own
    feats, rels = observe(os.path.join(wd, "o.db") if imp == "gff_update" else db)
    dbutil.close_db(db)
    if not gtf:
        for sid in STATIC_IDS:
            feats.pop(sid, None)
    missing = sorted(set(exp) - set(feats))
    extra = sorted(set(feats) - set(exp))
    ctx.check(not missing, "feature-lost", sig, lines=texts, missing=missing, stored=sorted(feats))
    ctx.check(not extra, "feature-invented", sig, lines=texts, extra=extra, expected=sorted(exp))
    for fid, (ecols, eattrs, eparents) in exp.items():
        if fid not in feats:
            continue
        gcols, gattrs = feats[fid]
        if imp == "gff_shift":
            ecols = dict(ecols)
            for c in ("start", "end"):
                ecols[c] = frozenset("." if v == "." else str(int(v) + SHIFT) for v in ecols[c])
        for c in COLNAMES:
            parts = gcols[c].split(",") if c in fmf else [gcols[c]]
            if c in fmf and len(parts) != len(set(parts)):
                ctx.fail("force-merged-column-has-repeats", dict(sig, column=c), lines=texts, id=fid, value=gcols[c])
            if set(parts) != set(ecols[c]):
                ctx.fail("column-differs", dict(sig, column=c, exempt=c in fmf), lines=texts, id=fid, got=gcols[c], expected=sorted(ecols[c]))
        for k in set(eattrs) | set(gattrs):
            gv = gattrs.get(k, [])
            if fid in merged_ids:
                if len(gv) != len(set(gv)):          # a merge unions the values "without repeats"
                    ctx.fail("attribute-values-repeated", dict(sig, key=k), lines=texts, id=fid, got=gv)
            elif sorted(gv) != sorted(ref.raw_attrs(fid).get(k, [])):      # nothing was merged into it: the values as written
                ctx.fail("unmerged-feature-values-differ-from-line", dict(sig, key="other"), lines=texts, id=fid, key=k, got=gv,
                         expected=ref.raw_attrs(fid).get(k, []))
            if set(gv) != set(eattrs.get(k, ())):
                ctx.fail("attribute-values-differ", dict(sig, key=k if k in ("Parent", "transcript_id") else "other",
                                                         lost=bool(set(eattrs.get(k, ())) - set(gv))),
                         lines=texts, id=fid, key=k, got=sorted(gv), expected=sorted(eattrs.get(k, ())))
    exp_rel = set() if gtf else set(STATIC_REL)
    for fid, (_, _, ps) in exp.items():
        for p in ps:
            exp_rel.add((p, fid, 1))
            exp_rel.add((GRAND[p], fid, 2))
    lost = sorted(exp_rel - rels)
    invented = sorted(rels - exp_rel)
    ctx.check(not lost, "parent-link-lost", dict(sig, into_suffix=ref.third_into_suffix, levels=",".join(sorted({str(x[2]) for x in lost}))),
              lines=texts, lost=lost, stored=sorted(rels))
    ctx.check(not invented, "parent-link-invented",
              dict(sig, into_suffix=ref.third_into_suffix, levels=",".join(sorted({str(x[2]) for x in invented}))),
              lines=texts, invented=invented, expected=sorted(exp_rel))
