"""C15 -- interfeatures, introns and splice sites have exact gap geometry (E1)."""
import itertools
import os

import gffutils

from gv.model import dbutil, grammar as G

ID = "C15"
RULE = (
    "Part 'lists' (shards = length x first feature x 4 option settings): every ordered list of 1..3 features, each an interval over "
    "positions 1..5 (quick; 3-lists 1..4) / 1..6 (thorough) x seqid {c1,c2} x strand {+,-} (60 / 84 kinds); 1- and 2-lists also shifted "
    "across the first bin boundary, with always_return_list off, and with identical attributes on all features; attribute values "
    "include signed / exponent-notation numbers, several spellings of one number and repeats. Settings: defaults; new_featuretype + "
    "numeric_sort; merge_attributes off yet update_attributes given; update_attributes forcing ID. The real interfeatures() output is "
    "compared with a reference (count, seqid, coordinates, featuretype, strand, merged attributes), each interfeature's bin must equal "
    "bins(); inputs unchanged; on sampled executions the database is unchanged. Part 'empty': list, tuple, exhausted generator and a "
    "query without hits x 4 settings yield nothing and do not raise. Part 'unstranded' (4 executions): a 3-exon transcript with strand "
    "'.' or '?' x both selections, in a file that also lists a '+' transcript before it, an ncRNA with exons and CDS children: usual "
    "intron and site positions, no five-/three-prime label on the unstranded ones, the '+' transcript labelled as usual, the ncRNA a "
    "transcript for the gene selection only, exon_featuretype='CDS' giving the CDS gaps. Part 'introns' (shards = blocks of exon "
    "sets): first transcript = every set of 1..3 exons with distinct starts over positions 1..6 (quick) / 1..8 (thorough; also 4 exons "
    "over 1..6), 931 / 6742 sets; second transcript = 3 representative sets; x strand x exon line order x always_return_list; a third "
    "transcript has only a CDS; the first has a miRNA child with an exon of its own (not an exon of the transcript). create_introns "
    "(both selections, attributes, columns) and create_splice_sites (positions, labels, distinct prefixed ids; numeric_sort must reach "
    "the sites' attributes too) are compared with the reference; database unchanged; after update() adds a gene both calls are "
    "re-checked. Non-trivial = some consecutive pair touches/overlaps/changes seqid/differs in strand while another has a gap (lists); "
    "the first transcript has >= 2 exons (introns); every empty and unstranded execution."
)
ASSUMPTIONS = [
    "exons of one transcript have distinct starts (order among equal starts is unspecified)",
    "score/frame/source/id of a derived interfeature are not demanded",
    "introns part: the first transcript ranges over every exon set, the second over three representative sets (first, middle, last)",
    "a transcript without strand ('.' or '?') gives no ground for a five-/three-prime label: only such labels are objected to there",
    "an exon whose Parent is a child of the transcript is not an exon of that transcript for create_introns / create_splice_sites",
]

SETTINGS = [
    dict(new_featuretype=None, merge_attributes=True, numeric_sort=False, update_attributes=None),
    dict(new_featuretype="intron", merge_attributes=True, numeric_sort=True, update_attributes=None),
    dict(new_featuretype="gap", merge_attributes=False, numeric_sort=False, update_attributes={"Name": ["only"]}),     # nothing merged, yet updated
    dict(new_featuretype="gap", merge_attributes=True, numeric_sort=False, update_attributes={"Name": ["u"], "ID": ["forced"]}),
]


def intervals(n):
    return [(a, b) for a in range(1, n + 1) for b in range(a, n + 1)]


def kinds(tier):
    npos = 5 if tier == "quick" else 6
    return [(iv, s, st) for iv in intervals(npos) for s in ("c1", "c2") for st in "+-"]


def exon_sets(tier):
    npos = 6 if tier == "quick" else 8
    ivs = intervals(npos)
    out = []
    for k in (1, 2, 3):
        for combo in itertools.combinations(ivs, k):
            if len({a for a, b in combo}) == k:
                out.append(combo)
    if tier != "quick":
        ivs4 = intervals(6)
        for combo in itertools.combinations(ivs4, 4):
            if len({a for a, b in combo}) == 4:
                out.append(combo)
    return out


_CACHE = {}


def bounds(tier):
    return dict(list_feature_kinds=len(kinds(tier)), max_list_len=3, settings=len(SETTINGS), exon_sets=len(exon_sets(tier)),
                positions_lists=5 if tier == "quick" else 6, positions_exons=6 if tier == "quick" else 8)


def shards(tier):
    nk = len(kinds(tier))
    out = [("lists", n, k0, si) for n in (1, 2, 3) for k0 in range(nk) for si in range(len(SETTINGS))]
    out += [("empty", 0, 0, si) for si in range(len(SETTINGS))]
    out.append(("unstranded",))
    ne = len(exon_sets(tier))
    step = 8 if tier == "quick" else 64
    out += [("introns", i, min(i + step, ne)) for i in range(0, ne, step)]
    return out


def get_db(ctx):
    if "db" not in ctx.memo:
        d = os.path.join(ctx.tmpdir, "c15-%d" % os.getpid())
        os.makedirs(d, exist_ok=True)
        p = dbutil.write_text(d, "in.gff", "c1\ts\tgene\t1\t9\t.\t+\t.\tID=g0\n")
        ctx.memo["db"] = gffutils.create_db(p, os.path.join(d, "o.db"), verbose=False, force=True)
        ctx.memo["db_canon"] = dbutil.canon(ctx.memo["db"])
    return ctx.memo["db"]


def ref_union(a, b, numeric):
    out = {}
    for k in list(a) + [k for k in b if k not in a]:
        vals = set(a.get(k, [])) | set(b.get(k, []))
        if numeric:
            try:
                out[k] = [s for _, s in sorted((float(v), v) for v in vals)]
                continue
            except ValueError:
                pass
        out[k] = sorted(vals)
    return out


def ref_inter(feats, setting):
    """feats: list of dict(seqid,start,end,strand,ft,attrs) -> expected interfeatures"""
    out = []
    for a, b in zip(feats, feats[1:]):
        if a["seqid"] != b["seqid"]:
            continue
        if b["start"] - a["end"] <= 1:
            continue
        ft = setting["new_featuretype"] or "inter_%s_%s" % (a["ft"], b["ft"])
        strand = a["strand"] if a["strand"] == b["strand"] else "."
        attrs = ref_union(a["attrs"], b["attrs"], setting["numeric_sort"]) if setting["merge_attributes"] else {}
        if setting["update_attributes"]:
            attrs.update({k: list(v) for k, v in setting["update_attributes"].items()})
        if "ID" in attrs and len(attrs["ID"]) > 1:
            attrs["ID"] = ["-".join(attrs["ID"])]
        out.append(dict(seqid=a["seqid"], start=a["end"] + 1, end=b["start"] - 1, ft=ft, strand=strand, attrs=attrs))
    return out


def obs(f):
    return dict(seqid=f.seqid, start=f.start, end=f.end, ft=f.featuretype, strand=f.strand,
                attrs={k: list(v) for k, v in G.as_plain(f.attributes).items()})


def body_lists(ch, ctx):
    _, n, k0, si = ctx.shard
    ks = _CACHE.setdefault(("k", ctx.tier), kinds(ctx.tier))
    setting = SETTINGS[si]
    pool_ = ks
    if n == 3 and ctx.tier == "quick":
        pool_ = _CACHE.setdefault(("k4", ctx.tier), [k for k in ks if k[0][1] <= 4])     # quick: 3-lists over positions 1..4
        if ks[k0] not in pool_:
            ctx.outcome("skipped-in-quick")
            return
    chosen = [ks[k0]] + [ch.choose("f%d" % i, pool_) for i in range(1, n)]
    # positions 1..5 are also placed across the first 128 kb bin boundary (131070..131074), and the global
    # always_return_list switch is flipped -- for the shorter lists, to keep the product affordable
    offset = ch.choose("offset", (0, 2 ** 17 - 3)) if n <= 2 else 0
    switch = ch.choose("always_return_list", (True, False)) if n <= 2 else True
    chosen = [((s + offset, e + offset), q, st) for (s, e), q, st in chosen]
    same_attrs = ch.flag("identical_attributes") if n <= 2 else False       # e.g. exons that carry nothing but Parent=
    db = get_db(ctx)
    feats, objs = [], []
    for i, ((s, e), seqid, strand) in enumerate(chosen):
        attrs = {"ID": ["x%d" % i] if i != 1 else ["x1", "x1alt"], "Parent": ["t1"], "num": [str(10 - i)], "tag": ["v%d" % (i % 2)],
                 "lvl": ["2", "10"],
                 # signed numbers and exponent notation are numbers too
                 "off": ["-1", "-10"] if i % 2 == 0 else ["+5", "-1"],
                 # ... and different spellings of one number are different values
                 "w": ["1e3", "200"] if i % 2 == 0 else ["1e3", "200.0", "2e2"]}
        if i % 2 == 0:
            attrs["only_here"] = ["zeta", "alpha", "zeta", "9", "10"]       # on every other feature only
        if same_attrs:
            attrs = {"Parent": ["t2", "t1b", "t2"], "rank": ["10", "9"]}     # identical on every feature, unsorted, with a repeat
        ft = ("exon", "CDS")[i % 2]
        feats.append(dict(seqid=seqid, start=s, end=e, strand=strand, ft=ft, attrs=attrs))
        objs.append(gffutils.Feature(seqid=seqid, source="s", featuretype=ft, start=s, end=e, strand=strand,
                                     attributes={k: list(v) for k, v in attrs.items()}, id="x%d" % i))
    before = [str(o) for o in objs]
    exp = ref_inter(feats, setting)
    pairs = list(zip(feats, feats[1:]))
    has_gap = bool(exp)
    has_nongap = any(a["seqid"] != b["seqid"] or b["start"] - a["end"] <= 1 or a["strand"] != b["strand"] for a, b in pairs)
    ctx.nontrivial(has_gap and has_nongap)
    ctx.sample(lambda: dict(features=[[f["seqid"], f["start"], f["end"], f["strand"]] for f in feats], setting=si,
                            expected=[[x["seqid"], x["start"], x["end"], x["ft"], x["strand"]] for x in exp]))
    sig = dict(setting=si, n=n, always_return_list=switch)
    kw = {k: v for k, v in setting.items()}
    from gffutils import constants, bins as _bins
    orig = constants.always_return_list
    constants.always_return_list = switch
    try:
        yielded = list(db.interfeatures(objs, **kw))
    finally:
        constants.always_return_list = orig
    got = [obs(f) for f in yielded]
    for f in yielded:
        ctx.check(f.bin == _bins.bins(f.start, f.end, one=True), "interfeature-bin-differs-from-bins", dict(sig, offset=bool(offset)),
                  start=f.start, end=f.end, bin=f.bin, expected=_bins.bins(f.start, f.end, one=True))
    ctx.outcome((n, si, len(exp), has_nongap))
    if not ctx.check(len(got) == len(exp), "interfeature-count-differs", sig, features=[[f["seqid"], f["start"], f["end"]] for f in feats],
                     got=[[g["seqid"], g["start"], g["end"]] for g in got], expected=[[g["seqid"], g["start"], g["end"]] for g in exp]):
        return
    for g, e in zip(got, exp):
        for field in ("seqid", "start", "end", "ft", "strand", "attrs"):
            if g[field] != e[field]:
                ctx.fail("interfeature-%s-differs" % ("coordinates" if field in ("start", "end") else field), dict(sig, field=field),
                         features=[[f["seqid"], f["start"], f["end"], f["strand"]] for f in feats], got=g[field], expected=e[field])
    ctx.check([str(o) for o in objs] == before, "inputs-modified", sig, before=before, after=[str(o) for o in objs])
    if ctx.want_sample:
        ctx.check(dbutil.canon(db) == ctx.memo["db_canon"], "database-modified", sig)


LABEL = {("left", "+"): "five_prime_cis_splice_site", ("left", "-"): "three_prime_cis_splice_site",
         ("right", "+"): "three_prime_cis_splice_site", ("right", "-"): "five_prime_cis_splice_site"}


def body_introns(ch, ctx):
    _, i0, i1 = ctx.shard
    sets = _CACHE.setdefault(("e", ctx.tier), exon_sets(ctx.tier))
    ex1 = ch.choose("exons_t1", sets[i0:i1])
    ex2 = ch.choose("exons_t2", [sets[0], sets[len(sets) // 2], sets[-1]])
    strand = ch.choose("strand", "+-")
    order = ch.choose("line_order", ("asc", "desc"))
    switch = ch.choose("always_return_list", (True, False))
    lines = ["c1\ts\tgene\t1\t20\t.\t%s\t.\tID=g1" % strand]
    tx = {"t1": ex1, "t2": tuple((a + 10, b + 10) for a, b in ex2)}
    for t, exs in tx.items():
        lines.append("c1\ts\tmRNA\t%d\t%d\t.\t%s\t.\tID=%s;Parent=g1" % (min(a for a, b in exs), max(b for a, b in exs), strand, t))
        seq = sorted(exs) if order == "asc" else sorted(exs, reverse=True)
        for j, (a, b) in enumerate(seq):
            lines.append("c1\ts\texon\t%d\t%d\t.\t%s\t.\tID=%s_e%d_%d;Parent=%s;num=%d;lvl=2,10" % (a, b, strand, t, a, b, t, 10 - j))
    # a child of t1 with an exon of its own (as in primary_transcript -> miRNA -> exon): that exon belongs to mi1, not to t1
    lines.append("c1\ts\tmiRNA\t90\t95\t.\t%s\t.\tID=mi1;Parent=t1" % strand)
    lines.append("c1\ts\texon\t90\t95\t.\t%s\t.\tID=mi1_e;Parent=mi1;num=1;lvl=2,10" % strand)
    lines.append("c1\ts\tmRNA\t30\t40\t.\t%s\t.\tID=t3;Parent=g1" % strand)          # a transcript with a CDS but no exon at all
    lines.append("c1\ts\tCDS\t31\t39\t.\t%s\t0\tID=t3c;Parent=t3" % strand)
    path = dbutil.write_text(ctx.fresh_dir(), "in.gff", "\n".join(lines) + "\n")
    db = gffutils.create_db(path, ":memory:", verbose=False)
    before = dbutil.canon(db)
    exp = []
    for t, exs in tx.items():
        fe = [dict(seqid="c1", start=a, end=b, strand=strand, ft="exon",
                   attrs={"ID": ["%s_e%d_%d" % (t, a, b)], "Parent": [t], "num": ["?"]}) for a, b in sorted(exs)]
        exp += [(t, x["start"], x["end"]) for x in ref_inter(fe, SETTINGS[1])]
    ctx.nontrivial(len(ex1) >= 2)
    ctx.sample(lambda: dict(file=lines, expected_introns=exp))
    ctx.outcome((len(ex1), len(exp), strand, order))
    sig = dict(strand=strand, n_exons=len(ex1))
    from gffutils import constants
    orig = constants.always_return_list
    constants.always_return_list = switch
    try:
        _introns_checks(ctx, db, exp, strand, lines, sig)
    finally:
        constants.always_return_list = orig
    ctx.check(dbutil.canon(db) == before, "database-modified", sig, file=lines)
    # a gene added later through update() on the same object is seen by the next call
    new = ["c2\ts\tgene\t1\t30\t.\t+\t.\tID=g9", "c2\ts\tmRNA\t1\t30\t.\t+\t.\tID=t9;Parent=g9",
           "c2\ts\texon\t1\t5\t.\t+\t.\tID=t9a;Parent=t9", "c2\ts\texon\t20\t30\t.\t+\t.\tID=t9b;Parent=t9"]
    from gffutils.feature import feature_from_line
    db.update([feature_from_line(t) for t in new], make_backup=False)
    got = sorted((f.seqid, f.start, f.end) for f in db.create_introns())
    want = sorted([("c1", s_, e_) for (_, s_, e_) in exp] + [("c2", 6, 19)])
    ctx.check(got == want, "introns-after-update-differ", sig, got=got, expected=want)
    n_sites = len(list(db.create_splice_sites()))
    ctx.check(n_sites == 2 * len(want), "splice-sites-after-update-differ", sig, got=n_sites, expected=2 * len(want))


def _introns_checks(ctx, db, exp, strand, lines, sig):
    def first(v):
        return v if isinstance(v, str) else v[0]

    for sel, kw in (("grandparent", {}), ("parent", dict(grandparent_featuretype=None, parent_featuretype="mRNA"))):
        got = sorted((first(G.as_plain(f.attributes)["Parent"]), f.start, f.end) for f in db.create_introns(**kw))
        ctx.check(got == sorted(exp), "introns-differ", dict(sig, selection=sel), file=lines, got=got, expected=sorted(exp))
        for f in db.create_introns(numeric_sort=True, **kw):
            a = G.as_plain(f.attributes)
            ctx.check(a.get("lvl") == ["2", "10"] and len(a.get("Parent", [])) == 1, "intron-attributes-not-sorted-union",
                      dict(sig, selection=sel), file=lines, got={k: list(v) for k, v in a.items()})
        bad = [f for f in db.create_introns(**kw) if f.featuretype != "intron" or f.strand != strand or f.seqid != "c1"]
        ctx.check(not bad, "intron-columns-wrong", dict(sig, selection=sel), file=lines, bad=[str(b) for b in bad][:3])
        sites = [(f.featuretype, G.as_plain(f.attributes)["Parent"][0], f.start, f.end, f.strand, G.as_plain(f.attributes)["ID"][0])
                 for f in db.create_splice_sites(**kw)]
        for f in db.create_splice_sites(numeric_sort=True, **kw):          # the option reaches the sites as it reaches the introns
            a = G.as_plain(f.attributes)
            ctx.check(a.get("lvl") == ["2", "10"], "splice-site-attributes-not-numerically-sorted", dict(sig, selection=sel), file=lines,
                      got={k: list(v) for k, v in a.items()})
        exp_sites = []
        for t, s, e in exp:
            exp_sites.append((LABEL[("left", strand)], t, s, s + 1, strand))
            exp_sites.append((LABEL[("right", strand)], t, e - 1, e, strand))
        ctx.check(sorted(x[:5] for x in sites) == sorted(exp_sites), "splice-sites-differ", dict(sig, selection=sel), file=lines,
                  got=sorted(x[:5] for x in sites), expected=sorted(exp_sites))
        ctx.check(all(x[5].startswith(x[0] + "_") for x in sites), "splice-site-id-not-prefixed", dict(sig, selection=sel), got=sites[:4])
        ctx.check(len({x[5] for x in sites}) == len(sites), "splice-site-ids-not-distinct", dict(sig, selection=sel), got=[x[5] for x in sites])


def body_empty(ch, ctx):
    """No feature at all (list, tuple, exhausted generator, a query without hits): nothing is yielded, nothing raises."""
    si = ctx.shard[3]
    form = ch.choose("form", ("list", "tuple", "generator", "query"))
    db = get_db(ctx)
    data = {"list": [], "tuple": (), "generator": (x for x in []), "query": db.features_of_type("no_such_type")}[form]
    ctx.sample(lambda: dict(empty_input=form, setting=si))
    ctx.nontrivial()
    ctx.outcome(("empty", form, si))
    try:
        got = list(db.interfeatures(data, **SETTINGS[si]))
    except Exception as e:
        ctx.fail("interfeatures-raised-on-empty-input", dict(form=form, exc=type(e).__name__), message=str(e)[:200])
        return
    ctx.check(got == [], "interfeatures-yields-for-empty-input", dict(form=form), got=[str(g) for g in got])


def body_unstranded(ch, ctx):
    """A transcript without strand: the gaps and the two-base sites are where they are for any transcript; with no strand to go
    by, a site cannot be labelled five- or three-prime 'according to the transcript strand'.  The file also holds a stranded
    transcript listed BEFORE it (labels are per transcript), an ncRNA with exons (a transcript for the gene selection, none for
    parent_featuretype='mRNA') and CDS children (the exons when exon_featuretype='CDS' is asked)."""
    strand = ch.choose("strand", (".", "?"))
    sel, kw = ch.choose("selection", (("grandparent", {}), ("parent", dict(grandparent_featuretype=None, parent_featuretype="mRNA"))))
    lines = ["c1\ts\tgene\t101\t140\t.\t+\t.\tID=g0", "c1\ts\tmRNA\t101\t140\t.\t+\t.\tID=t0;Parent=g0"]
    lines += ["c1\ts\texon\t%d\t%d\t.\t+\t.\tID=x%d;Parent=t0" % (a, b, a) for a, b in ((101, 105), (110, 140))]
    lines += ["c1\ts\tgene\t1\t70\t.\t%s\t.\tID=g1" % strand, "c1\ts\tmRNA\t1\t40\t.\t%s\t.\tID=t1;Parent=g1" % strand]
    lines += ["c1\ts\texon\t%d\t%d\t.\t%s\t.\tID=e%d;Parent=t1" % (a, b, strand, a) for a, b in ((1, 5), (10, 20), (31, 40))]
    lines += ["c1\ts\tCDS\t%d\t%d\t.\t%s\t0\tID=c%d;Parent=t1" % (a, b, strand, a) for a, b in ((2, 4), (12, 18))]
    lines += ["c1\ts\tncRNA\t50\t70\t.\t%s\t.\tID=n1;Parent=g1" % strand]
    lines += ["c1\ts\texon\t%d\t%d\t.\t%s\t.\tID=ne%d;Parent=n1" % (a, b, strand, a) for a, b in ((50, 55), (60, 70))]
    db = gffutils.create_db(dbutil.write_text(ctx.fresh_dir(), "u.gff", "\n".join(lines) + "\n"), ":memory:", verbose=False)
    ctx.sample(lambda: dict(file=lines, selection=sel))
    ctx.nontrivial()
    ctx.outcome(("unstranded", strand, sel))
    sig = dict(strand=strand, selection=sel, unstranded=True)
    nc = [(56, 59, strand)] if sel == "grandparent" else []          # the ncRNA is a child of the gene, not an mRNA
    introns = sorted((f.start, f.end, f.strand) for f in db.create_introns(**kw))
    ctx.check(introns == sorted([(6, 9, strand), (21, 30, strand), (106, 109, "+")] + nc), "introns-differ", sig, file=lines, got=introns)
    sites = sorted((f.start, f.end, f.featuretype) for f in db.create_splice_sites(**kw))
    want = sorted([(6, 7), (8, 9), (21, 22), (29, 30), (106, 107), (108, 109)] + [(56, 57), (58, 59)] * len(nc))
    ctx.check([x[:2] for x in sites] == want, "splice-sites-differ", sig, file=lines, got=sites)
    oriented = [x for x in sites if x[0] < 100 and x[2] in ("five_prime_cis_splice_site", "three_prime_cis_splice_site")]
    ctx.check(not oriented, "unstranded-transcript-got-strand-specific-site-labels", sig, file=lines, got=sites)
    stranded = sorted(x for x in sites if x[0] > 100)
    ctx.check(stranded == [(106, 107, "five_prime_cis_splice_site"), (108, 109, "three_prime_cis_splice_site")],
              "splice-sites-differ", dict(sig, stranded_transcript=True), file=lines, got=stranded)
    # the CDS as 'exons': only t1 has any
    introns = sorted((f.start, f.end) for f in db.create_introns(exon_featuretype="CDS", **kw))
    ctx.check(introns == [(5, 11)], "introns-differ", dict(sig, exon_featuretype="CDS"), file=lines, got=introns)
    sites = sorted((f.start, f.end) for f in db.create_splice_sites(exon_featuretype="CDS", **kw))
    ctx.check(sites == [(5, 6), (10, 11)], "splice-sites-differ", dict(sig, exon_featuretype="CDS"), file=lines, got=sites)


def body(ch, ctx):
    if ctx.shard[0] == "empty":
        return body_empty(ch, ctx)
    if ctx.shard[0] == "unstranded":
        return body_unstranded(ch, ctx)
    if ctx.shard[0] == "lists":
        body_lists(ch, ctx)
    else:
        body_introns(ch, ctx)
