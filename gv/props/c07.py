"""C07 -- parsing a line and printing it reproduces the line in every consistent dialect (E1)."""
import collections

from gffutils.feature import feature_from_line

from gv.model import grammar as G

ID = "C07"
RULE = (
    "One part; shards = dialect (48) x number of attributes n = 0..3 (quick) / 0..4 (thorough). Per shard: each attribute "
    "single/2-valued/3-valued/valueless flag (no flag first in key=value styles) x one optional special value in any valued attribute "
    "(quick: only for n <= 2): in GFF3-style dialects one of 13 specials (12 escaped characters: 8 reserved, NUL, 0x01, 0x1f, 0x7f; and "
    "the two-word text 'q w', nothing to escape) x position first/middle/last; in GTF-style (quoted) dialects one of 7 raw data values "
    "('=', '&', '%', '+', '%3B', 'a=b c=d', a value with two consecutive blanks) x position x 14 column / extra-column variants (quick "
    "with n = 3: the first 6), incl. '.' coordinates (both or one), scores/frames, empty and JSON-looking extra columns, integers "
    "beyond 2^53. Every line is parsed by feature_from_line and printed; compared with the generator's expectation: ordered attributes, "
    "8 columns, extra columns, inferred dialect (observable projection), byte-identical print; a line with >= 1 attribute part is "
    "parsed again with the inferred dialect handed over and must give the same attributes and print; without extra columns the "
    "blank-separated rendering parsed with strict=False must give an equal feature, and so must the rendering with two blanks at every "
    "column boundary (which must not raise either). All executions are distinct choice sequences; non-trivial = the line has >= 2 "
    "attribute parts, or an escape/special value, or extra columns, or '.' start coordinate."
)
ASSUMPTIONS = [
    "keys are \\w+ (GFF3 is recognised by key= at the very start, so a valueless flag is never first in key=value style)",
    "escapes are upper-case and only of reserved characters (others are decoded but, by documented design, not re-encoded)",
    "values contain no blanks at their edges; GTF-style values are free of ; \" , and control characters",
]

ESC_CHARS = ["\t", "\n", "\r", "%", ";", "=", "&", ",", "\x00", "\x01", "\x1f", "\x7f", "q w"]       # the last: nothing to escape - a second word
# GTF text has no escaping: these characters are plain data there (and so is a percent sequence)
RAW_GTF = ["=", "&", "%", "+", "%3B", "a=b c=d", "x  y"]          # the last: two consecutive blanks inside a value
KEYS = ["ID", "Name", "k3", "note_4"]
KINDS = ("single", "two", "three", "flag")
VALS = {
    0: ["a1", "b+c", "c2"],
    1: ["nm", "x.y", "z-1"],
    2: ["v", "w w", "u"],      # an inner blank
    3: ["1", "10", "2"],
}
COLS = [
    (("chr1", "src", "gene", "10", "20", ".", "+", "."), ()),
    (("chr1", "src", "gene", "10", "20", ".", "+", "."), ("x",)),
    (("chr1", "src", "gene", "10", "20", ".", "+", "."), ("x", "y z")),
    (("chr1", "src", "gene", ".", ".", ".", "+", "."), ()),
    (("ctg.1", "S-2", "mRNA", "1", "1", "0.5", "-", "2"), ()),
    (("ctg.1", "S-2", "mRNA", ".", "7", "1e-5", ".", "0"), ("", "t")),
    (("chr1", "src", "gene", "10", "20", ".", "+", "."), ("7",)),
    (("chr1", "src", "gene", "10", "20", ".", "+", "."), ("true",)),
    (("chr1", "src", "gene", "10", "20", ".", "+", "."), ('"q"',)),
    (("chr1", "src", "gene", "10", "20", ".", "+", "."), ("[1,2]",)),
    (("chr1", "src", "gene", "10", "20", ".", "+", "."), ("",)),
    (("chr1", "src", "gene", "10", ".", ".", "+", "."), ()),
    (("chr1", "src", "gene", ".", "20", ".", "+", "."), ("null", "")),
    (("chr1", "src", "gene", "9007199254740993", "9223372036854775807", ".", "+", "."), ()),      # beyond 2**53
]


def bounds(tier):
    return dict(dialects=len(G.ALL), max_attributes=3 if tier == "quick" else 4,
                kinds=list(KINDS), escape_chars=len(ESC_CHARS), raw_gtf_values=RAW_GTF, escape_positions=3,
                column_variants=len(COLS))


def shards(tier):
    maxn = 3 if tier == "quick" else 4
    return [(i, n) for i in range(len(G.ALL)) for n in range(0, maxn + 1)]


def build_items(ch, n, d, tier="thorough"):
    items = []
    for i in range(n):
        kinds = KINDS
        if i == 0 and d.style in ("eq", "eqq"):
            kinds = KINDS[:3]
        kind = ch.choose("kind%d" % i, kinds)
        nv = {"single": 1, "two": 2, "three": 3, "flag": 0}[kind]
        items.append((KEYS[i], list(VALS[i][:nv])))
    esc = None
    slots = [i for i, (k, v) in enumerate(items) if v]
    if slots and not (tier == "quick" and n >= 3):
        slot = ch.choose("esc_slot", [None] + slots)
        if slot is not None:
            if G.escapes(d):
                c = ch.choose("esc_char", ESC_CHARS)
                pos = ch.choose("esc_pos", (0, 1, 2))
                raw = [c + "ab", "a" + c + "b", "ab" + c][pos]
            else:
                c = ch.choose("raw_char", RAW_GTF)
                pos = ch.choose("esc_pos", (0, 1, 2))
                raw = [c + "ab", "a" + c + "b", "ab" + c][pos]
            items[slot][1][0] = raw
            esc = (slot, c, pos)
    return items, esc


def body(ch, ctx):
    di, n = ctx.shard
    d = G.ALL[di]
    items, esc = build_items(ch, n, d, ctx.tier)
    cols, extras = ch.choose("cols", COLS if (n <= 2 or ctx.tier != "quick") else COLS[:6])
    attrs_text = G.render_attrs(d, items)
    line = G.render_line(cols, attrs_text, extras)
    ctx.sample(lambda: dict(dialect=list(d), line=line))
    nparts = len(G.render_parts(d, items))
    ctx.nontrivial(nparts >= 2 or esc is not None or bool(extras) or cols[3] == ".")
    sig = dict(style=d.style, sep=d.sep, trailing=d.trailing, multi=d.multi)

    f = feature_from_line(line, keep_order=True)
    exp_attrs = G.expected_attrs(items)
    got_attrs = G.as_plain(f.attributes)
    ok_attrs = list(got_attrs.items()) == list(exp_attrs.items())
    ctx.check(ok_attrs, "attributes-differ", dict(sig, esc=esc is not None), line=line,
              expected=list(exp_attrs.items()), got=list(got_attrs.items()))
    exp_cols = [cols[0], cols[1], cols[2],
                None if cols[3] == "." else int(cols[3]),
                None if cols[4] == "." else int(cols[4]), cols[5], cols[6], cols[7]]
    got_cols = [f.seqid, f.source, f.featuretype, f.start, f.end, f.score, f.strand, f.frame]
    ctx.check(got_cols == exp_cols, "columns-differ", sig, line=line, expected=exp_cols, got=got_cols)
    ctx.check(list(f.extra) == list(extras), "extras-differ", sig, line=line, got=list(f.extra))
    exp_d = G.expected_dialect(d, items)
    got_d = dict(f.dialect)
    got_d["order"] = G.dedup(got_d.get("order", []))
    bad = sorted(k for k in exp_d if got_d.get(k) != exp_d[k])
    ctx.check(not bad, "dialect-differs", dict(sig, keys=",".join(bad)), line=line,
              expected={k: exp_d[k] for k in bad}, got={k: got_d.get(k) for k in bad})
    printed = str(f)
    ctx.check(printed == line, "print-differs", dict(sig, esc=esc is not None, flag=any(not v for _, v in items)),
              line=line, printed=printed)
    # the same line parsed with the dialect handed over (what every file reader does after its dialect is settled)
    if nparts >= 1:
        h = feature_from_line(line, dialect=dict(f.dialect), keep_order=True)
        h_attrs = G.as_plain(h.attributes)
        ctx.check(list(h_attrs.items()) == list(got_attrs.items()) and str(h) == printed, "parse-with-supplied-dialect-differs",
                  dict(sig, esc=esc is not None), line=line, inferred=list(got_attrs.items()), supplied=list(h_attrs.items()), printed=str(h))
    outcome = [d.style, nparts > 1, esc is not None, bool(extras)]
    if not extras:
        spaced = " ".join(list(cols) + ([attrs_text] if attrs_text else []))
        g = feature_from_line(spaced, strict=False, keep_order=True)
        same = (g == f and list(G.as_plain(g.attributes).items()) == list(got_attrs.items())
                and [g.seqid, g.source, g.featuretype, g.start, g.end, g.score, g.strand, g.frame] == got_cols
                and list(g.extra) == [])
        ctx.check(same, "non-strict-space-rendering-differs", sig, line=spaced, tab=str(f), spaced=str(g))
        # hand-aligned columns: two blanks at every column boundary
        wide = "  ".join(list(cols) + ([attrs_text] if attrs_text else []))
        try:
            g2 = feature_from_line(wide, strict=False, keep_order=True)
            same2 = g2 == f and list(G.as_plain(g2.attributes).items()) == list(got_attrs.items()) and \
                [g2.seqid, g2.source, g2.featuretype, g2.start, g2.end, g2.score, g2.strand, g2.frame] == got_cols
        except Exception as e:
            g2, same2 = "raised %s" % type(e).__name__, False
        ctx.check(same2, "non-strict-space-rendering-differs", dict(sig, two_blanks=True), line=wide, tab=str(f), spaced=str(g2))
        outcome.append("sp")
    ctx.outcome(tuple(outcome))
