"""C09 -- dialect inference recovers the dialect the input was written in (E1)."""
import os

import gffutils
from gffutils import helpers, constants
from gffutils.feature import feature_from_line

from gv.model import dbutil, files, grammar as G

ID = "C09"
RULE = (
    "Part 'cons' (shards = 48 dialects x 6 shapes): (n, checklines) from 5 (quick) / 24 (thorough) pairs; the dialect reported by "
    "DataIterator(path) is compared with the generator's dialect (order under both window readings; the default dialect is accepted for "
    "checklines 0), and must equal the dialect from a list of Feature objects (parsed lines; Features built from the raw attribute "
    "text), from the same text given as a string (from_string), of the fresh FeatureDB and of the reopened one; an empty-attribute line "
    "inside the window must not pollute 'order'; helpers.infer_dialect per line is compared with the expectation and must not depend on "
    "the caller's edits of an earlier answer. Part 'route' (48 dialects x with/without an explicit parent line): fmt recovered, GFF3 vs "
    "GTF import semantics, force_gff applies GFF3 semantics without changing the reported or a supplied dialect. Part 'mix' (shards = 7 "
    "dialect-key contrasts x length x first line): every sequence of <= 5 (quick) / 6 (thorough) lines each choosing value A/B and one "
    "of 3 weights, later lines alternatively an empty-attribute line without a vote; the winner reported by DataIterator(checklines=10) "
    "is compared with a reference vote (sum of weights, ties to the first seen). Part 'supplied' (forms path, string, Feature list, "
    "generator x n in {1,3}): a supplied dialect is used verbatim by DataIterator and create_db, the generator is not peeked, features "
    "carry it, feature count. Part 'corners' (1 shard, 9 executions): nine single attribute columns at the corners of the inference "
    "rules (a repeated key whose first occurrence has no value, GFF3 and GTF; '=' inside quoted GTF values; only empty quoted GTF "
    "values; a first key starting with a digit or a non-ASCII letter; quoted values under key=value); helpers.infer_dialect must report "
    "the stated keys (repeated keys, fmt, keyval / field separator, quoting, trailing semicolon). Non-trivial = a non-default dialect "
    "or n > checklines+1 (cons); a mixture where both values occur; every route, supplied and corners execution."
)
ASSUMPTIONS = [
    "the peek window is read as 'checklines' or 'checklines+1' features (the statement does not pin it down): both readings of 'order' are accepted",
    "mixtures are inspected with a window larger than the file",
    "field-separator mixtures use >= 2 attributes per line (otherwise the separator is unobservable)",
]

MIX = [
    # name, dialect key(s) checked, A, B (as grammar dialects), weights
    ("trailing", "trailing semicolon", G.GD(";", False, "eq", "comma"), G.GD(";", True, "eq", "comma"), (1, 2, 3)),
    ("sep;_; ", "field separator", G.GD(";", False, "eq", "comma"), G.GD("; ", False, "eq", "comma"), (2, 3, 4)),
    ("sep;_ ; ", "field separator", G.GD(";", False, "eq", "comma"), G.GD(" ; ", False, "eq", "comma"), (2, 3, 4)),
    ("sep; _ ; ", "field separator", G.GD("; ", False, "eq", "comma"), G.GD(" ; ", False, "eq", "comma"), (2, 3, 4)),
    ("repeated", "repeated keys", G.GD(";", False, "eq", "comma"), G.GD(";", False, "eq", "repeated"), (1, 2, 3)),
    ("quoting", "quoted GFF2 values", G.GD(";", False, "bare", "comma"), G.GD(";", False, "quoted", "comma"), (1, 2, 3)),
    ("keyval", "keyval separator", G.GD(";", False, "eq", "comma"), G.GD(";", False, "bare", "comma"), (1, 2, 3)),
]


def pairs(tier):
    if tier == "quick":
        return [(1, 0), (2, 1), (4, 2), (4, 10), (6, 0)]
    out = []
    for n in (1, 2, 4, 6):
        for cl in sorted({0, 1, 2, n - 1, n, n + 1, 10}):
            if cl >= 0:
                out.append((n, cl))
    return out + [(12, 10)]


def maxlines(tier):
    return 5 if tier == "quick" else 6


def bounds(tier):
    return dict(dialects=len(G.ALL), shapes=list(files.SHAPES), n_checklines_pairs=pairs(tier),
                mixtures=[m[0] for m in MIX], max_mixture_lines=maxlines(tier))


def shards(tier):
    out = [("cons", di, sh) for di in range(len(G.ALL)) for sh in files.SHAPES]
    out += [("route", di) for di in range(len(G.ALL))]
    for mi in range(len(MIX)):
        for n in range(1, maxlines(tier) + 1):
            for first in range(6):
                out.append(("mix", mi, n, first))
    out += [("supplied", form) for form in ("path", "string", "list", "generator")]
    out.append(("corners",))
    return out


KEYS = ["fmt", "field separator", "keyval separator", "quoted GFF2 values", "trailing semicolon",
        "repeated keys", "multival separator", "leading semicolon"]


def diff_dialect(got, exp, orders):
    bad = [k for k in KEYS if got.get(k) != exp[k]]
    if list(got.get("order", [])) not in orders:
        bad.append("order")
    return bad


def body_cons(ch, ctx):
    _, di, shape = ctx.shard
    d = G.ALL[di]
    n, cl = ch.choose("n_checklines", pairs(ctx.tier))
    lines = files.file_lines(d, shape, n)
    texts = files.render(d, lines)
    wd = ctx.fresh_dir()
    path = dbutil.write_text(wd, "in.gff", "\n".join(texts) + "\n")
    sig = dict(style=d.style, sep=d.sep, trailing=d.trailing, multi=d.multi, shape=shape)
    ctx.sample(lambda: dict(dialect=list(d), shape=shape, n=n, checklines=cl, first_line=texts[0]))
    ctx.nontrivial(d != G.ALL[0] or n > cl + 1)
    exp = G.expected_dialect(d, lines[0][1], full=True)
    orders = [files.first_seen_order(lines, w) for w in (cl, cl + 1) if w >= 1]
    accept_default = cl == 0     # reading "window = checklines features" with checklines 0: nothing inspected
    it = gffutils.DataIterator(path, checklines=cl)
    got = dict(it.dialect)
    bad = diff_dialect(got, exp, orders)
    if bad and accept_default and got == constants.dialect:
        bad = []
    ctx.check(not bad, "iterator-dialect-differs", dict(sig, keys=",".join(bad)), file=texts[:3], checklines=cl,
              got={k: got.get(k) for k in bad}, expected={k: exp.get(k) for k in bad}, orders=orders)
    # a feature line with an empty attribute column inside the window contributes nothing, not even default key names
    if n >= 2 and cl >= 2:
        with_empty = texts[:1] + ["c1\tsrc\tcontig\t1\t9\t.\t+\t.\t"] + texts[1:]
        it3 = gffutils.DataIterator(dbutil.write_text(wd, "e.gff", "\n".join(with_empty) + "\n"), checklines=cl + 1)
        ctx.check(list(it3.dialect["order"]) in [files.first_seen_order(lines, w) for w in (cl, cl + 1)], "order-polluted-by-empty-attribute-line",
                  sig, got=list(it3.dialect["order"]), file=with_empty[:3])
    # the same lines handed over as Feature objects must be judged alike
    it2 = gffutils.DataIterator([feature_from_line(t) for t in texts], checklines=cl)
    ctx.check(dict(it2.dialect) == got, "feature-list-dialect-differs-from-path", sig, checklines=cl, file=texts[:3],
              path=got, features=dict(it2.dialect))
    # ... and Feature objects built from the raw attribute text (no dialect given) instead of parsed lines
    raw = []
    for t in texts:
        c = t.split("\t")
        raw.append(gffutils.Feature(seqid=c[0], source=c[1], featuretype=c[2], start=c[3], end=c[4], score=c[5], strand=c[6], frame=c[7],
                                    attributes=c[8] if len(c) > 8 else "", extra=c[9:]))
    it5 = gffutils.DataIterator(raw, checklines=cl)
    ctx.check(dict(it5.dialect) == got, "feature-list-dialect-differs-from-path", dict(sig, raw_attribute_text=True), checklines=cl, file=texts[:3],
              path=got, features=dict(it5.dialect))
    # ... and so must the same text handed over as a string
    it4 = gffutils.DataIterator("\n".join(texts) + "\n", from_string=True, checklines=cl)
    ctx.check(dict(it4.dialect) == got, "string-input-dialect-differs-from-path", sig, checklines=cl, file=texts[:3],
              path=got, string=dict(it4.dialect))
    for i, ((cols, items, extras), text) in enumerate(zip(lines, texts)):
        first_answer = helpers.infer_dialect(text.split("\t")[8])
        per = dict(first_answer)
        per["order"] = G.dedup(per.get("order", []))
        # what the caller does with one answer must not change the next one
        first_answer["fmt"] = "edited"
        first_answer["order"].append("edited")
        second = dict(helpers.infer_dialect(text.split("\t")[8]))
        second["order"] = G.dedup(second.get("order", []))
        ctx.check(second == per, "infer_dialect-answer-depends-on-earlier-caller-edits", sig, line=text, first=per, second=second)
        e = G.expected_dialect(d, items, full=True)
        b = [k for k in KEYS + ["order"] if per.get(k) != e[k]]
        ctx.check(not b, "infer_dialect-differs", dict(sig, keys=",".join(b)), line=text,
                  got={k: per.get(k) for k in b}, expected={k: e[k] for k in b})
    dbfn = os.path.join(wd, "o.db")
    db = gffutils.create_db(path, dbfn, checklines=cl, verbose=False)
    gd = dict(db.dialect)
    ctx.check(gd == got, "db-dialect-differs-from-iterator", sig, db=gd, iterator=got)
    dbutil.close_db(db)
    db = gffutils.FeatureDB(dbfn)
    ctx.check(dict(db.dialect) == got, "reopened-db-dialect-differs", sig, db=dict(db.dialect), iterator=got)
    dbutil.close_db(db)
    ctx.outcome((d.style, d.sep, d.trailing, d.multi, bool(bad)))


def body_route(ch, ctx):
    _, di = ctx.shard
    d = G.ALL[di]
    with_parent_line = ch.flag("explicit_parent_feature")
    tag = ["t", "u"]
    lines = []
    if with_parent_line:
        lines.append((["c1", "s", "mRNA", "1", "50", ".", "+", "."], [("ID", ["p1"]), ("tag", tag)], []))
    for i, (s, e) in enumerate([(5, 9), (20, 30)]):
        lines.append((["c1", "s", "exon", str(s), str(e), ".", "+", "."],
                      [("ID", ["e%d" % i]), ("Parent", ["p1"]), ("gene_id", ["g1"]), ("transcript_id", ["t1"]), ("tag", tag)], []))
    texts = files.render(d, lines)
    wd = ctx.fresh_dir()
    path = dbutil.write_text(wd, "in.gff", "\n".join(texts) + "\n")
    db = gffutils.create_db(path, ":memory:", verbose=False)
    c = dbutil.canon(db)
    ids = [r[0] for r in c["features"]]
    rels = set(c["relations"])
    gtf = G.fmt_of(d) == "gtf"
    sig = dict(style=d.style, fmt=G.fmt_of(d))
    ctx.sample(lambda: dict(dialect=list(d), file=texts, ids=ids, relations=sorted(rels)))
    ctx.nontrivial()
    ctx.outcome((gtf, tuple(sorted(ids))))
    ctx.check(db.dialect["fmt"] == G.fmt_of(d), "fmt-not-recovered", sig, got=db.dialect["fmt"])
    if gtf:
        ok = ("t1" in ids and "g1" in ids and ("g1", "t1", 1) in rels and not any(p == "p1" for p, _, _ in rels)
              and "e0" not in ids and sum(1 for p, ch_, l in rels if p == "t1" and l == 1) == 2)
    else:
        ok = ("t1" not in ids and "g1" not in ids and {"e0", "e1"} <= set(ids)
              and {("p1", "e0", 1), ("p1", "e1", 1)} <= rels and not any(p in ("t1", "g1") for p, _, _ in rels))
    ctx.check(ok, "wrong-import-semantics", sig, file=texts, ids=ids, relations=sorted(rels))
    # force_gff chooses the importer; the dialect that is reported (and stored) is still the one the text is written in
    plain = dict(db.dialect)
    forced = gffutils.create_db(path, ":memory:", verbose=False, force_gff=True)
    ctx.check(dict(forced.dialect) == plain, "force_gff-changed-the-reported-dialect", sig, plain=plain, forced=dict(forced.dialect))
    fids = [f.id for f in forced.all_features()]
    ctx.check("t1" not in fids and "g1" not in fids and len(fids) == len(texts), "force_gff-did-not-apply-gff3-semantics", sig, ids=fids)
    supplied = dict(plain)
    forced2 = gffutils.create_db(path, ":memory:", verbose=False, force_gff=True, dialect=supplied)
    ctx.check(supplied == plain and dict(forced2.dialect) == plain, "force_gff-modified-the-supplied-dialect", sig, supplied=supplied)


def mix_line(d, weight, i, rep_key):
    items = []
    if rep_key:
        items.append(("tag", ["t%d" % i, "u%d" % i]))
        weight -= 1
    for j in range(weight):
        items.append((["ID", "Name", "k3", "k4"][j], ["v%d%d" % (i, j)]))
    return (["c1", "s", "gene", str(10 * i + 1), str(10 * i + 5), ".", "+", "."], items, [])


def body_mix(ch, ctx):
    _, mi, n, first = ctx.shard
    name, key, A, B, weights = MIX[mi]
    opts = [(v, w) for v in (0, 1) for w in weights]
    later = opts + [(None, 0)]          # a line with an empty attribute column: carries no vote at all
    seq = [opts[first]] + [ch.choose("line%d" % i, later) for i in range(1, n)]
    rep = name == "repeated"
    texts = []
    for i, (v, w) in enumerate(seq):
        if v is None:
            texts.append(G.render_line(["c1", "s", "contig", str(10 * i + 1), str(10 * i + 5), ".", "+", "."], "", []))
            continue
        d = (A, B)[v]
        cols, items, extras = mix_line(d, w, i, rep)
        texts.append(G.render_line(cols, G.render_attrs(d, items), extras))
    wd = ctx.fresh_dir()
    path = dbutil.write_text(wd, "mix.gff", "\n".join(texts) + "\n")
    # reference vote: sum of weights (distinct keys) per value, ties to the value seen first
    tot = {}
    for v, w in seq:
        if v is not None:
            tot[v] = tot.get(v, 0) + w
    best = max(tot.values())
    winner = [v for v in tot if tot[v] == best][0]      # dict keeps first-seen order
    expd = G.expected_dialect((A, B)[winner], mix_line((A, B)[winner], 2, 0, True)[1], full=True)
    it = gffutils.DataIterator(path, checklines=10)
    got = dict(it.dialect)
    ctx.sample(lambda: dict(mixture=name, sequence=seq, file=texts, winner="AB"[winner]))
    both = len(tot) == 2
    ctx.nontrivial(both)
    ctx.outcome((name, both, winner, tot.get(0, 0) == tot.get(1, 0)))
    check_keys = [key] + (["fmt"] if name == "quoting" else [])
    bad = [k for k in check_keys if got.get(k) != expd[k]]
    ctx.check(not bad, "mixture-winner-differs", dict(mixture=name, tie=both and tot[0] == tot[1], keys=",".join(bad)),
              sequence=seq, file=texts, totals=tot, expected={k: expd[k] for k in check_keys}, got={k: got.get(k) for k in check_keys})


SUP = {
    "leading semicolon": False, "trailing semicolon": True, "quoted GFF2 values": False,
    "field separator": ";", "keyval separator": "=", "multival separator": ",", "fmt": "gff3",
    "repeated keys": False, "order": ["Name", "zz", "ID"],
}


def body_supplied(ch, ctx):
    _, form = ctx.shard
    n = ch.choose("n", (1, 3))
    d = G.GD("; ", False, "eq", "repeated")   # the text itself is written differently from SUP
    lines = files.file_lines(d, "same", n)
    texts = files.render(d, lines)
    wd = ctx.fresh_dir()
    pulls = [0]
    if form == "path":
        data, kw = dbutil.write_text(wd, "s.gff", "\n".join(texts) + "\n"), {}
    elif form == "string":
        data, kw = "\n".join(texts) + "\n", dict(from_string=True)
    elif form == "list":
        data, kw = [feature_from_line(t) for t in texts], {}
    else:
        def gen():
            for t in texts:
                pulls[0] += 1
                yield feature_from_line(t)
        data, kw = gen(), {}
    D = dict(SUP)
    it = gffutils.DataIterator(data, dialect=D, **kw)
    ctx.sample(lambda: dict(form=form, n=n, supplied=D))
    ctx.nontrivial()
    ctx.outcome((form, n))
    ctx.check(it.dialect == SUP, "supplied-dialect-not-verbatim", dict(form=form, api="DataIterator"), got=it.dialect)
    ctx.check(pulls[0] == 0, "supplied-dialect-still-peeked", dict(form=form), pulled=pulls[0])
    feats = list(it)
    ctx.check(len(feats) == n and all(f.dialect == SUP for f in feats), "features-lack-supplied-dialect", dict(form=form),
              n=len(feats), dialects=[f.dialect for f in feats][:2])
    if form == "generator":
        def gen2():
            for t in texts:
                yield feature_from_line(t)
        data = gen2()
    db = gffutils.create_db(data, ":memory:", dialect=dict(SUP), verbose=False, **kw)
    ctx.check(db.dialect == SUP, "supplied-dialect-not-verbatim", dict(form=form, api="create_db"), got=db.dialect)
    ctx.check(db.count_features_of_type() == n, "supplied-dialect-feature-count", dict(form=form), got=db.count_features_of_type())


# single attribute columns whose dialect has one reading, at the corners of the inference rules
CORNERS = [
    # a repeated key is a repeated key even when its first occurrence carries no value
    ("ID=q;Alias=;Alias=X", {"repeated keys": True, "fmt": "gff3", "keyval separator": "="}),
    ("ID=q;Alias=;Alias=X;Alias=Y", {"repeated keys": True, "fmt": "gff3", "keyval separator": "="}),
    ('gene_id "g"; tag ""; tag "basic";', {"repeated keys": True, "fmt": "gtf", "quoted GFF2 values": True, "trailing semicolon": True}),
    # '=' inside a quoted GTF value does not make the column GFF3
    ('gene_id "ENSG=1"; transcript_id "T1";', {"fmt": "gtf", "keyval separator": " ", "quoted GFF2 values": True}),
    ('gene_id "cov=100%"; note "a=b";', {"fmt": "gtf", "keyval separator": " "}),
    # every value an empty quoted string: still quoted GTF
    ('gene_id ""; transcript_id "";', {"fmt": "gtf", "quoted GFF2 values": True, "keyval separator": " "}),
    # the first key begins with a digit / a non-ASCII letter: still key=value
    ("5p_partial=yes;ID=x", {"fmt": "gff3", "keyval separator": "=", "field separator": ";"}),
    ("\u00e9tat=1;ID=x", {"fmt": "gff3", "keyval separator": "="}),
    # quoted values under key=value stay GFF3
    ('ID="g1";Name="x y"', {"fmt": "gff3", "keyval separator": "=", "quoted GFF2 values": True}),
]


def body_corners(ch, ctx):
    text, want = ch.choose("line", CORNERS)
    ctx.sample(lambda: dict(attribute_column=text, expected=want))
    ctx.nontrivial()
    ctx.outcome(("corner", text[:12]))
    got = helpers.infer_dialect(text)
    bad = sorted(k for k in want if got.get(k) != want[k])
    ctx.check(not bad, "infer_dialect-differs", dict(corner=True, keys=",".join(bad)), line=text, got={k: got.get(k) for k in bad},
              expected={k: want[k] for k in bad})


def body(ch, ctx):
    kind = ctx.shard[0]
    if kind == "corners":
        return body_corners(ch, ctx)
    if kind == "cons":
        body_cons(ch, ctx)
    elif kind == "route":
        body_route(ch, ctx)
    elif kind == "mix":
        body_mix(ch, ctx)
    else:
        body_supplied(ch, ctx)
