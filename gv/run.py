"""Entry point: python -m gv.run <ID> [--tier quick|thorough] [--replay FILE]"""
import argparse
import importlib
import json
import os
import sys
import time


def _reexec_with_hashseed(seed):
    want = str(int(seed) % 4294967296)
    if os.environ.get("PYTHONHASHSEED") != want:
        env = dict(os.environ)
        env["PYTHONHASHSEED"] = want
        os.execve(sys.executable, [sys.executable, "-m", "gv.run"] + sys.argv[1:], env)


def _bind_repo():
    repo = os.environ.get("GV_REPO", "/repo")
    sys.path.insert(0, repo)
    import gffutils

    if not os.path.abspath(gffutils.__file__).startswith(os.path.abspath(repo) + os.sep):
        print("ENGINE-ERROR: gffutils imported from %s, expected under %s"
              % (gffutils.__file__, repo))
        sys.exit(2)
    import logging
    import warnings

    warnings.simplefilter("ignore")
    from gv.engine import pool

    pool.quiet_stderr()
    for name in ("gffutils.create", "gffutils.parser"):
        lg = logging.getLogger(name)
        lg.handlers[:] = [logging.NullHandler()]
        lg.propagate = False
    return repo


def standard_run(mod, tier, seed):
    """E1: explore every shard of the module's choice tree."""
    from gv.engine import pool, report

    t0 = time.time()
    shards = mod.shards(tier)
    max_dev = getattr(mod, "max_dev", lambda t: None)(tier)
    total = pool.explore(
        mod.body, shards, tier, seed, max_dev=max_dev,
        sample_every=getattr(mod, "SAMPLE_EVERY", 997),
        progress=int(os.environ.get("GV_PROGRESS", "0")) or None,
    )
    extra = {}
    if hasattr(mod, "postcheck"):
        extra = mod.postcheck(total, tier) or {}
    import random

    rnd = random.Random(seed)
    samples = list(total.samples)
    rnd.shuffle(samples)

    def confirm(v):
        if pool.replay_isolated(mod.body, v, tier, seed):
            return True
        # not reproducible in isolation: replay the reporting worker's whole execution history in a fresh
        # process (deterministic); if it shows up again the code under test keeps state between calls
        if v.get("shard_index") is not None and pool.replay_with_history(mod.body, shards, v, tier, seed, max_dev):
            v["needs_history"] = True
            v["detail"] = dict(v.get("detail") or {}, order_dependent=(
                "does not reproduce as a single execution; reproduces when the %d shard(s) explored earlier by the same "
                "worker process are executed first (state kept between independent calls)" % len(v.get("worker_history") or [])))
            return True
        return False

    exhaustive = max_dev is None and not total.counters.get("cap_hit")
    extra.update(
        shards=len(shards), max_depth=total.maxdepth,
        deviation_histogram={str(k): v for k, v in sorted(total.devhist.items())},
        counters=total.counters, deviation_bound=max_dev,
        pruned_by_bound=total.pruned_by_bound,
    )
    return report.conclude(
        mod.ID, tier, seed,
        states=total.nodes, transitions=total.edges, executions=total.executions,
        nontrivial=total.nontrivial, outcomes=len(total.outcomes), samples=samples,
        rule=mod.RULE, assumptions=mod.ASSUMPTIONS, bounds=mod.bounds(tier),
        exhaustive=exhaustive, wall=time.time() - t0, violations=total.violations,
        extra=extra, replay_confirm=confirm,
        caps=["max_exec"] if total.counters.get("cap_hit") else [],
    )


def standard_replay(mod, path, tier, seed):
    from gv.engine import pool

    with open(path) as fh:
        v = json.load(fh)
    if v.get("needs_history"):
        t = v.get("tier", tier)
        if hasattr(mod, "history_context"):             # checks that explore several groups of shards separately
            shs, md = mod.history_context(v, t)
        else:
            shs, md = mod.shards(t), getattr(mod, "max_dev", lambda t_: None)(t)
        ok = pool.replay_with_history(mod.body, shs, v, t, seed, md)
        print("order-dependent violation: replayed %d earlier shard(s) + shard %r in a fresh process -> %s"
              % (len(v.get("worker_history") or []), v.get("shard_index"), "reproduced" if ok else "NOT reproduced"))
        if ok:
            print("VIOLATION property=%s replay=%s" % (mod.ID, path))
            print("   kind=%s sig=%s" % (v["kind"], json.dumps(v["sig"], sort_keys=True)))
        return 1 if ok else 0
    ch, ctx = pool.replay(mod.body, v["shard"], v["choices"], tier, seed)
    print("replayed shard=%r choices=%r" % (v["shard"], v["choices"]))
    for lab, c in zip(ch.labels, ch.choices):
        print("   %-28s -> %s" % (lab, c))
    if ctx.sample_obj is not None:
        print("case:", json.dumps(ctx.sample_obj, default=str)[:3000])
    for x in ctx.violations:
        print("VIOLATION property=%s replay=%s" % (mod.ID, path))
        print("   kind=%s sig=%s" % (x.kind, x.sigkey()))
        print("   detail=%s" % json.dumps(x.detail, default=str)[:3000])
    return 1 if ctx.violations else 0


def main():
    ap = argparse.ArgumentParser()
    ap.add_argument("prop")
    ap.add_argument("--tier", default=os.environ.get("VERIF_TIER") or "quick",
                    choices=["quick", "thorough"])
    ap.add_argument("--replay")
    a = ap.parse_args()
    try:
        seed = int(os.environ.get("VERIF_SEED", "0") or 0)
    except ValueError:
        seed = 0
    _reexec_with_hashseed(seed)
    _bind_repo()
    try:
        mod = importlib.import_module("gv.props." + a.prop.lower())
        if a.replay:
            if hasattr(mod, "replay"):
                rc = mod.replay(a.replay, a.tier, seed)
            else:
                rc = standard_replay(mod, a.replay, a.tier, seed)
        elif hasattr(mod, "run"):
            rc = mod.run(a.tier, seed)
        else:
            rc = standard_run(mod, a.tier, seed)
    except SystemExit:
        raise
    except BaseException as e:          # a defect of the machinery, never a verdict on the code under test
        import traceback

        print("ENGINE-ERROR: %s: %s" % (type(e).__name__, str(e)[:500]))
        print(traceback.format_exc()[-1500:])
        sys.stdout.flush()
        sys.exit(2)
    sys.stdout.flush()
    sys.exit(rc)


if __name__ == "__main__":
    main()
