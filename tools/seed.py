#!/venv/bin/python
"""Confirm a sub-agent's mutant in a scratch copy and keep it under /verif/seeded/<id>/.

usage: tools/seed.py <PROP> <out_dir> <N> [--checks C14,C01] [--tier quick] [--name suffix]

Steps (all in a scratch copy of /repo's working tree outside /repo and /verif, removed afterwards):
  demo on the unmodified copy must exit 0; the patch must apply; the pinned tests must still give 74 passed;
  demo on the patched copy must exit non-zero; the given checks are run against the patched copy (GV_REPO).
"""
import argparse
import json
import os
import re
import shutil
import subprocess
import sys
import tempfile
import time

VERIF = os.path.dirname(os.path.dirname(os.path.abspath(__file__)))


def sh(cmd, cwd=None, env=None, timeout=3600):
    r = subprocess.run(cmd, shell=True, cwd=cwd, env=env, capture_output=True, text=True, timeout=timeout)
    return r.returncode, r.stdout + r.stderr


def main():
    ap = argparse.ArgumentParser()
    ap.add_argument("prop")
    ap.add_argument("outdir")
    ap.add_argument("n")
    ap.add_argument("--checks")
    ap.add_argument("--tier", default="quick")
    ap.add_argument("--name")
    a = ap.parse_args()
    checks = (a.checks or a.prop).split(",")
    patch = os.path.join(a.outdir, "mutant%s.diff" % a.n)
    demo = os.path.join(a.outdir, "demo%s.py" % a.n)
    note = os.path.join(a.outdir, "note%s.txt" % a.n)
    sid = "%s-%s" % (a.prop, a.name or ("m" + a.n))
    wt = os.path.dirname(os.path.abspath(a.outdir.rstrip("/")))
    S = tempfile.mkdtemp(prefix="gvseed-", dir="/dev/shm")
    meta = dict(id=sid, property=a.prop, source="independent sub-agent (given only the property text and a scratch worktree)",
                base_commit=subprocess.check_output(["git", "-C", "/repo", "rev-parse", "--short", "HEAD"], text=True).strip(),
                confirmed_at=time.strftime("%Y-%m-%dT%H:%M:%SZ", time.gmtime()), ran=[])
    try:
        sh("rsync -a --exclude .git --exclude '*.db' --exclude __pycache__ --exclude _out /repo/ %s/" % S)
        src = open(demo).read()
        generic = src.replace('"%s"' % wt, '__import__("os").environ.get("GFFUTILS_SRC", "/repo")').replace(
            "'%s'" % wt, '__import__("os").environ.get("GFFUTILS_SRC", "/repo")')
        if wt in generic:
            generic = generic.replace(wt, S)      # path used in some other way: pin to scratch for this run only
        dpath = os.path.join(S, "_demo.py")
        open(dpath, "w").write(generic)
        env = dict(os.environ, GFFUTILS_SRC=S, PYTHONPATH=S)
        rc0, out0 = sh("/venv/bin/python _demo.py", cwd=S, env=env)
        meta["demo_clean_exit"] = rc0
        meta["ran"].append("demo on unmodified copy: exit %d" % rc0)
        rc, out = sh("patch -p1 -s < %s" % patch, cwd=S)
        if rc != 0:
            print("PATCH FAILED\n" + out)
            meta["patch_applies"] = False
            return finish(meta, None, sid, False)
        rc, out = sh("/venv/bin/python -m pytest -q -p no:cacheprovider --timeout=900 --continue-on-collection-errors 2>&1 | tail -1", cwd=S)
        meta["tests_tail"] = out.strip()
        meta["tests_74_pass"] = "74 passed" in out and "2 failed" in out
        meta["ran"].append("pinned test suite on patched copy: %s" % out.strip())
        rc1, out1 = sh("/venv/bin/python _demo.py", cwd=S, env=env)
        meta["demo_patched_exit"] = rc1
        meta["demo_patched_tail"] = out1.strip()[-400:]
        meta["ran"].append("demo on patched copy: exit %d" % rc1)
        results = {}
        for cid in checks:
            env2 = dict(os.environ, GV_REPO=S, GV_NO_EVIDENCE="1")
            t0 = time.time()
            rc, out = sh("./check %s --tier %s" % (cid, a.tier), cwd=VERIF, env=env2)
            viol = [l for l in out.splitlines() if l.startswith("VIOLATION")]
            kinds = [l.strip() for l in out.splitlines() if l.strip().startswith("violation kinds:")]
            results[cid] = dict(exit=rc, violation_lines=len(viol), kinds=kinds[:1], wall_s=round(time.time() - t0, 1),
                                engine_error=[l for l in out.splitlines() if l.startswith("ENGINE-ERROR")][:2])
            meta["ran"].append("./check %s --tier %s with GV_REPO=<patched copy>: exit %d, %d VIOLATION lines" % (cid, a.tier, rc, len(viol)))
        meta["checks"] = results
        meta["detected_by"] = [c for c, r in results.items() if r["exit"] == 1 and r["violation_lines"]]
        ok = rc0 == 0 and rc1 != 0 and meta["tests_74_pass"]
        meta["confirmed"] = ok
        return finish(meta, (patch, generic, note), sid, ok)
    finally:
        shutil.rmtree(S, ignore_errors=True)


def finish(meta, files, sid, ok):
    print(json.dumps({k: meta[k] for k in meta if k not in ("ran",)}, indent=1)[:3000])
    if not ok or files is None:
        print("NOT KEPT: not confirmed")
        return 1
    patch, demo_src, note = files
    d = os.path.join(VERIF, "seeded", sid)
    os.makedirs(d, exist_ok=True)
    shutil.copy(patch, os.path.join(d, "patch.diff"))
    open(os.path.join(d, "demo.py"), "w").write(demo_src)
    needs = open(note).read().strip() if os.path.exists(note) else ""
    meta["needs_to_manifest"] = needs
    json.dump(meta, open(os.path.join(d, "meta.json"), "w"), indent=1)
    print("KEPT %s detected_by=%s" % (d, meta.get("detected_by")))
    return 0


if __name__ == "__main__":
    sys.exit(main())
