#!/venv/bin/python
"""Mechanical mutation campaign: single-token mutants of gffutils, filtered by the pinned test suite, then run against
the quick checks that cover the mutated file until one reports a VIOLATION.

usage: tools/mutate.py [--seed N] [--n N] [--files a.py,b.py] [--out DIR] [--resume]
Results: <out>/results.jsonl (one line per mutant), <out>/survivors/ (diffs of mutants no check reported).
Nothing is written to /repo; every mutant lives in a scratch copy under /dev/shm that is removed afterwards.
"""
import argparse
import io
import json
import os
import random
import shutil
import subprocess
import tempfile
import time
import tokenize

VERIF = os.path.dirname(os.path.dirname(os.path.abspath(__file__)))
REPO = "/repo"
FILES = ["parser.py", "bins.py", "create.py", "interface.py", "feature.py", "helpers.py", "iterators.py", "attributes.py",
         "inspect.py", "merge_criteria.py", "convert.py", "constants.py"]
# checks to try for a mutated file, most likely reporter first
CHECKS = {
    "parser.py": ["C07", "C08", "C01", "C09", "C13", "C14"],
    "bins.py": ["C12", "C06", "C10"],
    "create.py": ["C05", "C04", "C02", "C03", "C01", "C10", "C14", "C13", "C19", "C20", "C09"],
    "interface.py": ["C10", "C11", "C06", "C02", "C16", "C15", "C18", "C04", "C19", "C03", "C17"],
    "feature.py": ["C07", "C17", "C12", "C18", "C01", "C08", "C06"],
    "helpers.py": ["C17", "C11", "C06", "C09", "C15", "C10", "C02", "C13"],
    "iterators.py": ["C13", "C14", "C09", "C01", "C10", "C20"],
    "attributes.py": ["C17", "C07", "C01"],
    "inspect.py": ["C13"],
    "merge_criteria.py": ["C16"],
    "convert.py": ["C18"],
    "constants.py": ["C01", "C10", "C17", "C09", "C11"],
}
SWAP = {"<": "<=", "<=": "<", ">": ">=", ">=": ">", "==": "!=", "!=": "==", "+": "-", "-": "+", "and": "or", "or": "and",
        "True": "False", "False": "True", "+=": "-=", "-=": "+=", "break": "continue", "continue": "break", "in": "not in", "is": "is not"}


def sites(path):
    """-> list of (line, col, old, new, kind) single-token replacements (docstrings / comments excluded)."""
    src = open(path).read()
    out = []
    toks = list(tokenize.generate_tokens(io.StringIO(src).readline))
    prev_sig = None
    for i, t in enumerate(toks):
        if t.type in (tokenize.COMMENT, tokenize.NL, tokenize.NEWLINE, tokenize.INDENT, tokenize.DEDENT, tokenize.ENCODING):
            continue
        if t.type == tokenize.STRING:
            prev_sig = t
            continue
        s = t.string
        if t.type in (tokenize.OP, tokenize.NAME) and s in SWAP:
            nxt = toks[i + 1].string if i + 1 < len(toks) else ""
            if s == "is" and nxt == "not":
                out.append((t.start[0], t.start[1], "is not", "is", "is-not"))
            elif s == "not" or (s == "in" and prev_sig is not None and prev_sig.string == "not"):
                pass
            elif s == "in" and prev_sig is not None and prev_sig.string == "for":
                pass
            elif s == "in":
                # skip the 'in' of for-loops / comprehensions: look back for a 'for' on the same logical line without an 'if' after it
                line_toks = [x for x in toks[:i] if x.start[0] == t.start[0]]
                names = [x.string for x in line_toks]
                if "for" in names and "if" not in names[len(names) - names[::-1].index("for"):]:
                    pass
                else:
                    out.append((t.start[0], t.start[1], s, SWAP[s], "op"))
            elif s in ("+", "-") and (prev_sig is None or prev_sig.type == tokenize.OP and prev_sig.string not in (")", "]", "}")):
                pass        # unary sign
            else:
                out.append((t.start[0], t.start[1], s, SWAP[s], "op"))
        elif t.type == tokenize.NAME and s == "not":
            out.append((t.start[0], t.start[1], "not ", "", "drop-not"))
        elif t.type == tokenize.NUMBER and s.isdigit() and len(s) <= 6:
            n = int(s)
            out.append((t.start[0], t.start[1], s, str(n + 1), "const+1"))
            if n > 0:
                out.append((t.start[0], t.start[1], s, str(n - 1), "const-1"))
        prev_sig = t
    # statement deletion: simple one-line statements inside functions
    lines = src.split("\n")
    for ln, text in enumerate(lines, 1):
        st = text.strip()
        if not st or st.startswith(("#", '"', "'", "def ", "class ", "return", "import ", "from ", "@", "if ", "elif ", "else", "for ", "while ",
                                    "try", "except", "finally", "with ", "raise", "yield", "pass", ")", "]", "}")):
            if st.startswith("return ") and st != "return None":
                out.append((ln, len(text) - len(text.lstrip()), st, "return None", "return-none"))
            continue
        if text.startswith("    ") and st.endswith((")", "]")) or (" = " in st and not st.endswith(("(", "[", "{", ",", "\\"))):
            if st.count("(") == st.count(")") and st.count("[") == st.count("]"):
                out.append((ln, len(text) - len(text.lstrip()), st, "pass", "delete-statement"))
    return out


def apply(path, site):
    ln, col, old, new, kind = site
    lines = open(path).read().split("\n")
    text = lines[ln - 1]
    if text[col:col + len(old)] != old:
        return False
    lines[ln - 1] = text[:col] + new + text[col + len(old):]
    open(path, "w").write("\n".join(lines))
    return True


def sh(cmd, cwd=None, env=None, timeout=1800):
    try:
        r = subprocess.run(cmd, shell=True, cwd=cwd, env=env, capture_output=True, text=True, timeout=timeout)
        return r.returncode, r.stdout + r.stderr
    except subprocess.TimeoutExpired:
        return 124, "TIMEOUT"


def main():
    ap = argparse.ArgumentParser()
    ap.add_argument("--seed", type=int, default=0)
    ap.add_argument("--n", type=int, default=200)
    ap.add_argument("--files", default=",".join(FILES))
    ap.add_argument("--out", default=os.path.join(VERIF, "mutation"))
    ap.add_argument("--list", action="store_true")
    a = ap.parse_args()
    files = a.files.split(",")
    allsites = []
    for f in files:
        path = os.path.join(REPO, "gffutils", f)
        src = open(path).read().split("\n")
        # the module's own self-test code is not product code
        stop = min([i + 1 for i, l in enumerate(src) if l.startswith(("def test", "if __name__"))] or [10 ** 9])
        for s in sites(path):
            if s[0] < stop:
                allsites.append((f,) + s)
    if a.list:
        from collections import Counter
        print(len(allsites), Counter(s[0] for s in allsites), Counter(s[5] for s in allsites))
        return
    rnd = random.Random(a.seed)
    rnd.shuffle(allsites)
    os.makedirs(os.path.join(a.out, "survivors"), exist_ok=True)
    done = set()
    resp = os.path.join(a.out, "results.jsonl")
    if os.path.exists(resp):
        for l in open(resp):
            d = json.loads(l)
            done.add((d["file"], d["line"], d["col"], d["old"], d["new"]))
    n = 0
    for site in allsites:
        if n >= a.n:
            break
        f, ln, col, old, new, kind = site
        if (f, ln, col, old, new) in done:
            continue
        n += 1
        S = tempfile.mkdtemp(prefix="gvmut-", dir="/dev/shm")
        rec = dict(file=f, line=ln, col=col, old=old, new=new, kind=kind, seed=a.seed)
        try:
            sh("rsync -a --exclude .git --exclude '*.db' --exclude __pycache__ %s/ %s/" % (REPO, S))
            if not apply(os.path.join(S, "gffutils", f), site[1:]):
                rec["status"] = "not-applicable"
                continue
            rc, out = sh("/venv/bin/python -c 'import gffutils'", cwd=S, env=dict(os.environ, PYTHONPATH=S))
            if rc != 0:
                rec["status"] = "does-not-import"
                continue
            rc, out = sh("/venv/bin/python -m pytest -q -p no:cacheprovider --timeout=300 --continue-on-collection-errors 2>&1 | tail -1", cwd=S, timeout=900)
            rec["tests"] = out.strip()[-80:]
            if not ("74 passed" in out and "2 failed" in out):
                rec["status"] = "killed-by-tests"
                continue
            rec["status"] = "survived-checks"
            rec["tried"] = []
            for cid in CHECKS.get(f, []):
                t0 = time.time()
                rc, out = sh("./check %s --tier quick" % cid, cwd=VERIF, env=dict(os.environ, GV_REPO=S, GV_NO_EVIDENCE="1"), timeout=1200)
                viol = [l for l in out.splitlines() if l.startswith("VIOLATION")]
                rec["tried"].append([cid, rc, round(time.time() - t0, 1)])
                if rc == 1 and viol:
                    rec["status"] = "reported"
                    rec["by"] = cid
                    kinds = [l.strip() for l in out.splitlines() if l.strip().startswith("violation kinds:")]
                    rec["kinds"] = kinds[0][:200] if kinds else ""
                    break
                if rc not in (0, 1):
                    rec.setdefault("engine_errors", []).append([cid, rc, [l for l in out.splitlines() if l.startswith("ENGINE")][:1]])
            if rec["status"] == "survived-checks":
                rc, diff = sh("diff -u %s/gffutils/%s %s/gffutils/%s" % (REPO, f, S, f))
                name = "%s_%d_%d_%s.diff" % (f[:-3], ln, col, kind)
                open(os.path.join(a.out, "survivors", name), "w").write(diff)
                rec["diff"] = name
        finally:
            shutil.rmtree(S, ignore_errors=True)
            with open(resp, "a") as fh:
                fh.write(json.dumps(rec) + "\n")
            print("%-16s %5d:%-3d %-18s %-12r -> %-12r %s %s" % (f, ln, col, kind, old[:12], new[:12], rec.get("status"), rec.get("by", "")), flush=True)


if __name__ == "__main__":
    main()
