#!/bin/sh
# For every "fixed" entry in known_findings.json: undo that fix in a scratch copy and run the property's quick check.
cd /verif
/venv/bin/python - <<'PY' > /tmp/fixlist.txt
import json
for e in json.load(open('/verif/known_findings.json'))['entries']:
    if e['status']=='fixed': print(e['id'], e['property'], e['commit'])
PY
while read id prop commit; do
  git -C /repo diff $commit $commit^ -- gffutils > /verif/mutants/revert_$id.diff
  out=$(tools/try_patch.sh /verif/mutants/revert_$id.diff quick $prop 2>&1)
  tests=$(echo "$out" | grep -E "passed" | head -1)
  nv=$(echo "$out" | grep -c "^VIOLATION")
  echo "$id $prop $commit | $tests | VIOLATION lines: $nv"
done < /tmp/fixlist.txt
