#!/bin/sh
# usage: tools/try_patch.sh <patch.diff> <tier> <ID> [ID...]
# Copies /repo's working tree to a scratch dir outside /repo and /verif, applies the patch,
# runs the pinned tests there, runs the given checks against the copy (GV_REPO), removes the copy.
set -u
PATCH=$(readlink -f "$1"); TIER=$2; shift 2
S=$(mktemp -d /dev/shm/gvmut-XXXXXX)
trap 'rm -rf "$S"' EXIT
rsync -a --exclude .git --exclude '*.db' --exclude '__pycache__' /repo/ "$S/"
if ! (cd "$S" && patch -p1 -s < "$PATCH"); then echo "PATCH-FAILED"; exit 3; fi
echo "== tests on patched copy"
(cd "$S" && /venv/bin/python -m pytest -q -p no:cacheprovider --timeout=900 --continue-on-collection-errors 2>&1 | tail -1)
(cd "$S" && /venv/bin/python -c "import gffutils,sys; print('copy imports', gffutils.__file__)")
for id in "$@"; do
  echo "== $id ($TIER) on patched copy"
  (cd /verif && GV_NO_EVIDENCE=1 GV_REPO="$S" ./check "$id" --tier "$TIER" 2>&1 | grep -E "^(VIOLATION|KNOWN|ENGINE|C[0-9]+ tier|   kind)" | head -12)
  echo "   exit=$?"
done
