#!/venv/bin/python
"""Regenerate /verif/MANIFEST.json from the table below (kept valid at all times)."""
import json, os, sys
HERE = os.path.dirname(os.path.dirname(os.path.abspath(__file__)))

TRUST = ("sqlite3, CPython, simplejson, pyfaidx and the OS are trusted; exhaustive only inside the stated alphabet/bounds "
         "(recorded in the evidence file); PYTHONHASHSEED is fixed from VERIF_SEED")

# id -> (engine, technique, level text, design_ref, note)
CHECKS = {
 "C07": ("E1", "stateless exhaustive enumeration of a choice tree over the real parser/printer, compared with a reference grammar",
         "Every line of a 36-dialect grammar (attribute shapes, escapes, extra columns, '.' coordinates) up to 3 (quick) / 4 (thorough) attributes is parsed and printed by the real code and compared with the generator's expectation: columns, ordered attributes, inferred dialect, byte-identical print, strict=False space rendering.",
         "3/C07", "keys are \\w+, escapes upper-case and of reserved characters only; " + TRUST),
 "C12": ("E1", "stateless exhaustive enumeration of a choice tree over the real function, compared with independent bin geometry",
         "All (start,end) pairs over the +-2 (quick) / +-3 (thorough) boundary grid of every bin level, both conventions, both result forms, are evaluated on the real bins() and checked against bin extents computed by arithmetic; all overlapping interval pairs of a sub-grid check bin-in-bin-set; Feature.bin agrees.",
         "3/C12", "behaviour away from the grid is covered only by the argument that bins() sees coordinates through fixed shifts; " + TRUST),
}
NOT_YET = "check not built yet in this round (work in progress; see DESIGN.md section 3)"

def main():
    props = [json.loads(l)["id"] for l in open(os.path.join(HERE, "properties.jsonl"))]
    checks = []
    na = []
    for pid in props:
        if pid in CHECKS and os.path.exists(os.path.join(HERE, "gv", "props", pid.lower() + ".py")):
            eng, tech, text, ref, note = CHECKS[pid]
            checks.append(dict(
                property_id=pid,
                quick_cmd="./check %s --tier quick" % pid,
                thorough_cmd="./check %s --tier thorough" % pid,
                evidence_file="/verif/evidence/%s.json" % pid,
                replay_cmd_template="./check %s --replay {path}" % pid,
                engine=eng,
                level_claimed=dict(category="model_checking", text=text, design_ref="DESIGN.md section " + ref),
                level_note=note,
                technique=tech,
            ))
        else:
            na.append(dict(property_id=pid, reason=NOT_YET))
    m = dict(
        version=1,
        setup_cmd="/venv/bin/python -m compileall -q gv && /venv/bin/python -m gv.selftest",
        hooks=dict(guard="GFFUTILS_VERIF", enable="none needed: all seams are wrapped from the harness (no source hooks)",
                   baseline_off_cmd="cd /repo && /venv/bin/python -m pytest -ra -q -p no:cacheprovider --timeout=900 --continue-on-collection-errors",
                   source_commits=[], add_only=True),
        engines=[
            dict(name="E1", path="gv/engine/choice.py", kind_free_text="stateless choice-tree explorer with deviation bound, prefix replay, fork pool",
                 serves_properties=[c["property_id"] for c in checks if c["engine"] == "E1"]),
            dict(name="E2", path="gv/engine/history.py", kind_free_text="explicit-state breadth-first search over real API histories with canonical-state deduplication",
                 serves_properties=[c["property_id"] for c in checks if c["engine"] == "E2"]),
            dict(name="E3", path="gv/engine/sched.py", kind_free_text="controlled scheduler for real processes (file-system and sqlite scheduling points), pre-emption bounded",
                 serves_properties=[c["property_id"] for c in checks if c["engine"] == "E3"]),
        ],
        checks=checks,
        notes="All checks: cwd=/verif, honour VERIF_SEED / VERIF_TIER, import gffutils from /repo's working tree (pure Python, nothing to build), rewrite their evidence file. Known findings: /verif/known_findings.json.",
        not_applicable=na,
    )
    with open(os.path.join(HERE, "MANIFEST.json"), "w") as fh:
        json.dump(m, fh, indent=1)
        fh.write("\n")
    print("MANIFEST: %d checks, %d not claimed" % (len(checks), len(na)))

if __name__ == "__main__":
    main()
