#!/venv/bin/python
"""Regenerate /verif/MANIFEST.json from the table below (kept valid at all times)."""
import json, os, sys
HERE = os.path.dirname(os.path.dirname(os.path.abspath(__file__)))

TRUST = ("sqlite3, CPython, simplejson, pyfaidx and the OS are trusted; exhaustive only inside the stated alphabet/bounds "
         "(recorded in the evidence file); PYTHONHASHSEED is fixed from VERIF_SEED")

# id -> (engine, technique, level text, design_ref, note)
CHECKS = {
 "C01": ("E1", "stateless exhaustive enumeration of a choice tree (file x configuration) over the real create_db/FeatureDB, compared with the generator's expectation",
         "Every combination of 36 grammar dialects x 6 file shapes x (line count, checklines) x database kind (:memory:, file, reopened) x merge strategy x sort_attribute_values is imported by the real create_db from a freshly written file; all_features() is compared line by line (columns, extras, ordered attributes, byte-identical print), again after reopening, and the printed features are re-imported and compared canonically.",
         "3/C01", "files satisfy consistency conditions (a)/(b) of DESIGN section 2; unique ids; path input only; " + TRUST),
 "C08": ("E1", "stateless exhaustive enumeration of all strings up to a length bound over fixed alphabets against the real printer/parser",
         "All value strings of length <= 2 (quick) / 3 (thorough) over an 18-symbol alphabet, in 4 placements, under all 72 dialect dictionaries are printed and re-parsed by the real code and compared; every attribute-column string of length <= 6 (quick) / 7 (thorough) over the 9-symbol structural alphabet is parsed with inference and three supplied dialects and must neither raise nor yield non-list values.",
         "3/C08", "arbitrary Unicode beyond the alphabet and longer strings are not covered (small-scope assumption); " + TRUST),
 "C09": ("E1", "stateless exhaustive enumeration of consistent files and of all two-valued line mixtures against the real inference, compared with a reference vote",
         "For all 36 dialects x shapes x (n, checklines) the dialect reported by DataIterator, FeatureDB (fresh and reopened) and infer_dialect is compared with the generator's dialect; GFF3 vs GTF import semantics are checked per dialect; for 7 dialect-key contrasts every sequence of <= 5 (quick) / 6 (thorough) lines with per-line value and weight is voted by a ten-line reference and compared; supplied dialects must be used verbatim without peeking.",
         "3/C09", "both readings of the peek window size (checklines / checklines+1) are accepted for 'order'; " + TRUST),
 "C14": ("E1", "stateless exhaustive enumeration of all line-kind sequences up to a length bound against the real iterator/importer",
         "Every sequence of <= 4 (quick) / 5 (+ length 6 over a reduced alphabet, thorough) line kinds {##directive, ###, #comment, blank, feature, ##FASTA, >header} x checklines {0,1,10} x {path, from_string} is run through DataIterator (twice), create_db(:memory:) and create_db(file)+reopen; directives and features are compared with a reference classifier written from the statement.",
         "3/C14", TRUST),
 "C07": ("E1", "stateless exhaustive enumeration of a choice tree over the real parser/printer, compared with a reference grammar",
         "Every line of a 36-dialect grammar (attribute shapes, escapes, extra columns, '.' coordinates) up to 3 (quick) / 4 (thorough) attributes is parsed and printed by the real code and compared with the generator's expectation: columns, ordered attributes, inferred dialect, byte-identical print, strict=False space rendering.",
         "3/C07", "keys are \\w+, escapes upper-case and of reserved characters only; " + TRUST),
 "C12": ("E1", "stateless exhaustive enumeration of a choice tree over the real function, compared with independent bin geometry",
         "All (start,end) pairs over the +-2 (quick) / +-3 (thorough) boundary grid of every bin level, both conventions, both result forms, are evaluated on the real bins() and checked against bin extents computed by arithmetic; all overlapping interval pairs of a sub-grid check bin-in-bin-set; Feature.bin agrees.",
         "3/C12", "behaviour away from the grid is covered only by the argument that bins() sees coordinates through fixed shifts; " + TRUST),
}
NOT_YET = "check not built yet in this round (work in progress; see DESIGN.md section 3)"

def main():
    props = [json.loads(l)["id"] for l in open(os.path.join(HERE, "properties.jsonl"))]
    checks = []
    na = []
    for pid in props:
        if pid in CHECKS and os.path.exists(os.path.join(HERE, "gv", "props", pid.lower() + ".py")):
            eng, tech, text, ref, note = CHECKS[pid]
            checks.append(dict(
                property_id=pid,
                quick_cmd="./check %s --tier quick" % pid,
                thorough_cmd="./check %s --tier thorough" % pid,
                evidence_file="/verif/evidence/%s.json" % pid,
                replay_cmd_template="./check %s --replay {path}" % pid,
                engine=eng,
                level_claimed=dict(category="model_checking", text=text, design_ref="DESIGN.md section " + ref),
                level_note=note,
                technique=tech,
            ))
        else:
            na.append(dict(property_id=pid, reason=NOT_YET))
    m = dict(
        version=1,
        setup_cmd="/venv/bin/python -m compileall -q gv && /venv/bin/python -m gv.selftest",
        hooks=dict(guard="GFFUTILS_VERIF", enable="none needed: all seams are wrapped from the harness (no source hooks)",
                   baseline_off_cmd="cd /repo && /venv/bin/python -m pytest -ra -q -p no:cacheprovider --timeout=900 --continue-on-collection-errors",
                   source_commits=[], add_only=True),
        engines=[
            dict(name="E1", path="gv/engine/choice.py", kind_free_text="stateless choice-tree explorer with deviation bound, prefix replay, fork pool",
                 serves_properties=[c["property_id"] for c in checks if c["engine"] == "E1"]),
            dict(name="E2", path="gv/engine/history.py", kind_free_text="explicit-state breadth-first search over real API histories with canonical-state deduplication",
                 serves_properties=[c["property_id"] for c in checks if c["engine"] == "E2"]),
            dict(name="E3", path="gv/engine/sched.py", kind_free_text="controlled scheduler for real processes (file-system and sqlite scheduling points), pre-emption bounded",
                 serves_properties=[c["property_id"] for c in checks if c["engine"] == "E3"]),
        ],
        checks=checks,
        notes="All checks: cwd=/verif, honour VERIF_SEED / VERIF_TIER, import gffutils from /repo's working tree (pure Python, nothing to build), rewrite their evidence file. Known findings: /verif/known_findings.json.",
        not_applicable=na,
    )
    with open(os.path.join(HERE, "MANIFEST.json"), "w") as fh:
        json.dump(m, fh, indent=1)
        fh.write("\n")
    print("MANIFEST: %d checks, %d not claimed" % (len(checks), len(na)))

if __name__ == "__main__":
    main()
