#!/venv/bin/python
"""Regenerate /verif/MANIFEST.json from the table below (kept valid at all times)."""
import json, os, sys
HERE = os.path.dirname(os.path.dirname(os.path.abspath(__file__)))

TRUST = ("sqlite3, CPython, simplejson, pyfaidx and the OS are trusted; exhaustive only inside the stated alphabet/bounds "
         "(recorded in the evidence file); PYTHONHASHSEED is fixed from VERIF_SEED")

# id -> (engine, technique, level text, design_ref, note)
CHECKS = {
 "C19": ("E1", "stateless exhaustive enumeration of (old database, new input, force) and of all read-call sequences up to a length bound, with a sqlite statement trace and canonical file comparison",
         "Every (old database kind, new input, force, input form) combination checks that create_db without force raises and leaves the file's canonical content unchanged and with force equals a fresh import; every sequence of <= 3 (quick) / <= 4 (thorough) of 19 read-style calls on copies of 4 file databases runs under a statement trace (only SELECT/PRAGMA allowed) and the closed file is compared canonically (all tables, counters, dialect, directives) and reopened.",
         "3/C19", "sqlite3's trace callback is trusted to see every statement; byte identity is reported, not judged; " + TRUST),
 "C20": ("E3", "systematic schedule enumeration of real forked processes under a controlled scheduler (all interleavings for 2 imports; pre-emption-bounded for 3 imports, for readers and for the torn-write pair), forced temp-name collisions",
         "Real create_db processes sharing one temp directory are serialised at every temp-directory operation; for six 2-process job sets every interleaving, for three 3-process sets every schedule within 1 (quick) / 2 (thorough) pre-emptions, is executed; each output database is compared canonically with a solitary run and the shared directory must be empty. 2 and 3 concurrent readers of one file are scheduled at connect/statement/commit/row-fetch granularity within a pre-emption bound and must all observe the full content. Every job has a scheduling point at its start (start offsets); the controller itself runs a solitary import in the shared directory before forking; job kinds include from_string, force=True over an existing file, file:// URL input, a CDS-only GTF and one solitary 13 000-line import.",
         "3/C20", "one process runs at a time; OS/sqlite atomicity trusted; 2-3 processes only; " + TRUST),
 "C02": ("E1", "stateless exhaustive enumeration of all small Parent DAGs x dangling value x every line permutation against the real importer and relation queries",
         "Every DAG on <= 4 (quick) / <= 5 (thorough) labelled features, with a dangling Parent value on at most one feature and every permutation of the lines, is imported by the real create_db; children()/parents() for every feature, level, featuretype and order_by, plus iter_by_parent_childs, are compared with the closure computed from the Parent lists (one id contains an escaped comma; results are also consumed nested and interleaved); plus one 7800-line file with 6000 second-level relations in three line orders.",
         "3/C02", "unique ids; two relation levels; " + TRUST),
 "C03": ("E1", "stateless exhaustive enumeration of small GTF gene/transcript structures x line orders x inference flags against a reference derivation",
         "Gene/transcript structures (1-2 transcripts, 1-2 genes, exon sets incl. none/nested/reordered, wide CDS lines, explicit gene/transcript lines) x line orders x the four disable_infer_* combinations x default/custom keys are imported by the real create_db; stored ids, derived extents and every children/parents answer at levels 1, 2, None are compared with a reference derivation written from the statement (ids with a blank, file names *.gtf/*.gff/*.gff3/*.txt); plus one 2400-line GTF with 1200 transcripts under three flag settings.",
         "3/C03", "all sub-feature lines carry both ids; exons of a gene share seqid/strand; explicit transcript as level-2 child of its gene is accepted either way; " + TRUST),
 "C04": ("E1", "stateless exhaustive enumeration of id_spec forms x per-line attribute presence patterns against a reference id handler",
         "13 id_spec forms x featuretype patterns x every assignment of {ID only, Name only, both, neither, two ID values} to 3 (quick) / 4 (thorough) lines, plus the GTF default spec, are imported; stored keys, uniqueness, exact look-up by key and by Feature, absent near-miss keys and rejection of multi-valued ids are compared with a reference written from the statement.",
         "3/C04", "values chosen so reference keys never collide (collisions are C05); " + TRUST),
 "C05": ("E1", "stateless exhaustive enumeration of arrival sequences for one key x strategy x importer, stepped against a reference model of the five strategies",
         "Every sequence of a base arrival plus 1-2 (quick) / 1-3 (thorough) arrivals from a 17/25-kind alphabet (column agreement, attribute sets, Parent, explicit ID=X_1) x 5 strategies x force_merge_fields subsets x {GFF3 create_db, create_db of a prefix + update() at every split, GTF create_db} runs on the real importer; stored ids, columns, attribute value sets and level-1/level-2 relations are compared with the reference model.",
         "3/C05", "merged value order compared as sets; iteration position of merged/replaced features not demanded; " + TRUST),
 "C06": ("E1", "stateless exhaustive enumeration of all boundary-coordinate query intervals x call forms against brute force over memoised real databases",
         "A database holding one feature for every pair of bin-boundary coordinates (and one over positions 1..6) is queried with every interval of the same set x completely_within x 12 call forms (region kwargs/tuple/string/Feature/no seqid/one-sided, limit= of all_features, features_of_type, children, parents) x strand x featuretype; each answer is compared with a brute-force scan.",
         "3/C06", "region(Feature) strand accepted under both readings; one-sided forms checked with inclusion bounds; " + TRUST),
 "C10": ("E2", "explicit-state breadth-first search over real update/delete/add_relation/reopen histories with canonical-state deduplication and a reference model; exhaustive fault-position enumeration",
         "All histories up to depth 3 (quick) / 4 (thorough) after choosing one of three initial databases (GFF3 chain with or without an id-less feature; GTF with inference disabled), over 22 GFF3 / 13 GTF events on a real file database, are replayed on a live FeatureDB with a reference model alongside; every distinct reached state (deduplicated on a canonical form of all tables plus in-memory counters) is compared with the model through a second connection, the .bak file with the pre-operation state, every update bundle is re-run with its feature source failing at every position, ordinary reads are interleaved between the operations and the live object's counts, look-ups, dialect, stored bins and the library's module-level settings are compared at the end; plus one large history deleting 1000 ids in a single call.",
         "3/C10", "small-scope (depth/alphabet); after a failed operation only the backup is judged; " + TRUST),
 "C11": ("E1", "stateless exhaustive enumeration of filter/order_by/reverse combinations against a full scan of a memoised real database",
         "On a 16-feature (thorough: also 30-feature) database with mixed-case/non-ASCII seqids, numeric-looking scores, ties and '.' coordinates, every combination of method x featuretype x strand x order_by (12 names as string, 1-tuple, all ordered pairs) x reverse is run; result sets are compared with a brute-force filter and sequences must be monotone under SQLite's comparison; counts and distinct listings are compared too.",
         "3/C11", "ties may come in any order; " + TRUST),
 "C13": ("E1", "stateless exhaustive enumeration of input forms x checklines x transforms (and inspect arguments) against the path form and an instrumented source",
         "Each annotation is supplied in 8 forms (path, .gz, from_string, list, instrumented one-shot generator, DataIterator with the transform on the iterator or on create_db, FeatureDB) x checklines 0..n+2 x 3 transforms; iterated sequences, transform call logs, generator pull logs and the canonical database are compared with the expectation and with the path form; inspect() is compared with a Counter for all 16 look_for subsets x limits.",
         "3/C13", "annotations whose lines share keys; " + TRUST),
 "C15": ("E1", "stateless exhaustive enumeration of ordered feature lists and exon sets against a reference gap generator",
         "Every ordered list of 1..3 features (interval over 5 (quick) / 6 positions x 2 seqids x 2 strands) x 4 option settings goes through the real interfeatures; every pair of transcripts with 1..3 (thorough ..4) exons with distinct starts goes through create_introns (both selections) and create_splice_sites; results are compared with a reference written from the statement; inputs and database must be unchanged.",
         "3/C15", "exons of a transcript have distinct starts; " + TRUST),
 "C16": ("E1", "stateless exhaustive enumeration of interval multisets x criteria x patterns x object histories against a reference run-builder and an independent interval union",
         "Every start-ordered multiset of <= 3 (quick) / <= 4 (thorough) intervals over 6 positions x 9 criteria sets x 4 seqid/strand/type patterns x 4 object histories goes through the real merge(); partition, extents, id freshness, input and database immutability and repeatability are checked; merge_all (both exclude_components settings, default and two non-default criteria sets, ascending/descending file order) and children_bp (merge on/off) are checked on real databases built from the same multisets, plus one 1700-feature database with a 1300-member run.",
         "3/C16", "criteria sets never consult ambiguous accumulated fields; " + TRUST),
 "C17": ("E1", "stateless exhaustive enumeration of setters x values x switch, of small mappings and mapping pairs, and of feature pairs",
         "Every (feature source, setter, value shape, key, always_return_list) combination, every 1..3-key mapping over 8 value shapes (JSON identity), every ordered pair of 49 mappings x numeric_sort x container x switch (merge_attributes vs a reference, argument immutability) and every pair of a 24-feature set (equality/hash) is evaluated on the real code.",
         "3/C17", "arbitrary Unicode beyond the value shapes is not covered; " + TRUST),
 "C18": ("E1", "stateless exhaustive enumeration of all sub-intervals of a fixed FASTA and of small transcript structures against reference slicing and a reference BED12 writer",
         "Every (record, start<=end, strand, use_strand, FASTA as path/object) over a two-record FASTA is checked against reference slicing/reverse-complement and len(); every set of <= 3 disjoint exons over 6 (quick) / 8 positions x span mismatch x CDS option x strand x name field x argument form x thick/thin goes through bed12() and to_bed12() on a real database and is compared field by field, including the ValueError rule.",
         "3/C18", "thick bounds without thick features and overlapping exons are not demanded; pyfaidx trusted; " + TRUST),
 "C01": ("E1", "stateless exhaustive enumeration of a choice tree (file x configuration) over the real create_db/FeatureDB, compared with the generator's expectation",
         "Every combination of 48 grammar dialects x 6 file shapes x (line count, checklines) x database kind (:memory:, file, reopened) x merge strategy x sort_attribute_values is imported by the real create_db from a freshly written file; all_features() is compared line by line (columns, extras, ordered attributes, byte-identical print), again after reopening, and the printed features are re-imported and compared canonically.",
         "3/C01", "files satisfy consistency conditions (a)/(b) of DESIGN section 2; unique ids; path input only; " + TRUST),
 "C08": ("E1", "stateless exhaustive enumeration of all strings up to a length bound over fixed alphabets against the real printer/parser",
         "All value strings of length <= 2 (quick) / 3 (thorough) over an 18-symbol alphabet, in 4 placements, under all 72 dialect dictionaries are printed and re-parsed by the real code and compared; every attribute-column string of length <= 6 (quick) / 7 (thorough) over the 9-symbol structural alphabet is parsed with inference and three supplied dialects and must neither raise nor yield non-list values.",
         "3/C08", "arbitrary Unicode beyond the alphabet and longer strings are not covered (small-scope assumption); " + TRUST),
 "C09": ("E1", "stateless exhaustive enumeration of consistent files and of all two-valued line mixtures against the real inference, compared with a reference vote",
         "For all 48 dialects x shapes x (n, checklines) the dialect reported by DataIterator, FeatureDB (fresh and reopened) and infer_dialect is compared with the generator's dialect; GFF3 vs GTF import semantics are checked per dialect; for 7 dialect-key contrasts every sequence of <= 5 (quick) / 6 (thorough) lines with per-line value and weight is voted by a ten-line reference and compared; supplied dialects must be used verbatim without peeking.",
         "3/C09", "both readings of the peek window size (checklines / checklines+1) are accepted for 'order'; " + TRUST),
 "C14": ("E1", "stateless exhaustive enumeration of all line-kind sequences up to a length bound against the real iterator/importer",
         "Every sequence of <= 4 (quick) / 5 (+ all of length 6 for path input with checklines 0 and 1, thorough) line kinds {##directive, ###, #comment, blank, feature, ##FASTA, >header} x checklines {0,1,10} x {path, from_string} is run through DataIterator (twice), create_db(:memory:) and create_db(file)+reopen; directives and features are compared with a reference classifier written from the statement.",
         "3/C14", TRUST),
 "C07": ("E1", "stateless exhaustive enumeration of a choice tree over the real parser/printer, compared with a reference grammar",
         "Every line of a 48-dialect grammar (attribute shapes, escapes, extra columns, '.' coordinates) up to 3 (quick) / 4 (thorough) attributes is parsed and printed by the real code and compared with the generator's expectation: columns, ordered attributes, inferred dialect, byte-identical print, strict=False space rendering.",
         "3/C07", "keys are \\w+, escapes upper-case and of reserved characters only; " + TRUST),
 "C12": ("E1", "stateless exhaustive enumeration of a choice tree over the real function, compared with independent bin geometry",
         "All (start,end) pairs over the +-2 (quick) / +-3 (thorough) boundary grid of every bin level, both conventions (asked in both orders within one execution), both result forms, are evaluated on the real bins() and checked against bin extents computed by arithmetic; all overlapping interval pairs of a sub-grid check bin-in-bin-set; Feature.bin agrees.",
         "3/C12", "behaviour away from the grid is covered only by the argument that bins() sees coordinates through fixed shifts; " + TRUST),
}
DESCR = json.load(open(os.path.join(HERE, "tools", "descriptions.json"))) if os.path.exists(os.path.join(HERE, "tools", "descriptions.json")) else {}
NOT_YET = "check not built yet in this round (work in progress; see DESIGN.md section 3)"

def main():
    props = [json.loads(l)["id"] for l in open(os.path.join(HERE, "properties.jsonl"))]
    checks = []
    na = []
    for pid in props:
        if pid in CHECKS and os.path.exists(os.path.join(HERE, "gv", "props", pid.lower() + ".py")):
            eng, tech, text, ref, note = CHECKS[pid]
            text = DESCR.get(pid, {}).get("manifest_text", text)      # tools/descriptions.json: texts re-derived from the code
            checks.append(dict(
                property_id=pid,
                quick_cmd="./check %s --tier quick" % pid,
                thorough_cmd="./check %s --tier thorough" % pid,
                evidence_file="/verif/evidence/%s.json" % pid,
                replay_cmd_template="./check %s --replay {path}" % pid,
                engine=eng,
                level_claimed=dict(category="model_checking", text=text, design_ref="DESIGN.md section " + ref),
                level_note=note,
                technique=tech,
            ))
        else:
            na.append(dict(property_id=pid, reason=NOT_YET))
    m = dict(
        version=1,
        setup_cmd="/venv/bin/python -m compileall -q gv && /venv/bin/python -m gv.selftest",
        hooks=dict(guard="GFFUTILS_VERIF", enable="none needed: all seams are wrapped from the harness (no source hooks)",
                   baseline_off_cmd="cd /repo && /venv/bin/python -m pytest -ra -q -p no:cacheprovider --timeout=900 --continue-on-collection-errors",
                   source_commits=[], add_only=True),
        engines=[
            dict(name="E1", path="gv/engine/choice.py", kind_free_text="stateless choice-tree explorer with deviation bound, prefix replay, fork pool",
                 serves_properties=[c["property_id"] for c in checks if c["engine"] == "E1"]),
            dict(name="E2", path="gv/engine/history.py", kind_free_text="explicit-state breadth-first search over real API histories with canonical-state deduplication",
                 serves_properties=[c["property_id"] for c in checks if c["engine"] == "E2"]),
            dict(name="E3", path="gv/engine/sched.py", kind_free_text="controlled scheduler for real processes (file-system and sqlite scheduling points), pre-emption bounded",
                 serves_properties=[c["property_id"] for c in checks if c["engine"] == "E3"]),
        ],
        checks=checks,
        notes="All checks: cwd=/verif, honour VERIF_SEED / VERIF_TIER, import gffutils from /repo's working tree (pure Python, nothing to build), rewrite their evidence file. Known findings: /verif/known_findings.json.",
        not_applicable=na,
    )
    with open(os.path.join(HERE, "MANIFEST.json"), "w") as fh:
        json.dump(m, fh, indent=1)
        fh.write("\n")
    print("MANIFEST: %d checks, %d not claimed" % (len(checks), len(na)))

if __name__ == "__main__":
    main()
