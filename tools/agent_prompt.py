#!/venv/bin/python
"""Print the sub-agent prompt for one property (only the property text + its worktree)."""
import json, sys
pid = sys.argv[1]
wt = sys.argv[2] if len(sys.argv) > 2 else "/tmp/wt-%s" % pid
for l in open('/verif/properties.jsonl'):
    p = json.loads(l)
    if p['id'] == pid:
        break
import glob, os
prior = []
for m in sorted(glob.glob('/verif/seeded/%s-*/meta.json' % pid)):
    note = (json.load(open(m)).get('needs_to_manifest') or '').strip().replace("\n", " ")
    prior.append("  - " + note[:420])
PRIOR = ""
if prior and (os.environ.get("WAVE3") or os.environ.get("WAVE4") or os.environ.get("WAVE5") or os.environ.get("WAVE6") or os.environ.get("WAVE8")):
    PRIOR = "\n\nOther people have ALREADY proposed the following changes for this property; yours must be genuinely different (different mechanism, different code site or different trigger), not variations of these:\n" + "\n".join(prior) + "\n"
NUM = "THREE" if (os.environ.get("WAVE3") or os.environ.get("WAVE4") or os.environ.get("WAVE5") or os.environ.get("WAVE6") or os.environ.get("WAVE8")) else "TWO"
if os.environ.get("WAVE5"):
    PRIOR += """
Many obvious ideas are taken (see the list above), so dig deeper. Favour changes of these kinds (at least two of your three):
  (f) ERROR PATHS: the behaviour when something legitimately fails or is absent (missing attribute, empty input, unknown id, an exception raised by a user callback, an interrupted iteration) - the library must still keep the property for what follows;
  (g) ARGUMENT FORMS: a public function accepts several forms of the same argument (id string vs Feature object, list vs tuple vs generator vs single string, keyword vs positional, str vs int coordinates, Path-like vs str) and only one rarely used form misbehaves;
  (h) TWO METHODS ON ONE OBJECT: calling one public method changes what a later call of another public method on the same object (or on another object of the same class, or in the same process) returns;
  (i) DEFAULTS: a default value that is evaluated once, shared, or differs subtly from what the documentation says, so that only callers relying on the default (or only callers NOT relying on it) are affected;
  (j) OFF-BY-ONE AT A DOCUMENTED BOUNDARY that toy examples do not touch (first/last line of a file, first/last feature of a chromosome, exactly N items where N is a constant in the code, zero-length or one-base features, coordinate 1 or the largest supported coordinate).
"""

if os.environ.get("WAVE8"):
    PRIOR += """
A great many ideas are taken (see the list above). This time work differently:
  1. First list, for yourself, every function and branch in the code areas named above (and the helpers in gffutils/helpers.py, feature.py, parser.py, iterators.py, constants.py, attributes.py, bins.py, merge_criteria.py, convert.py that they call) that can influence whether the property holds.
  2. Strike out every function / branch that one of the earlier proposals above already changes.
  3. Choose your three changes among what is LEFT - code sites nobody has touched yet. If a function was touched, a different branch of it still counts as untouched.
  4. Keep each change SMALL: one token or one line where possible - a comparison operator, a boundary (+1 / -1), a default value, a dropped clause of a condition, a dropped statement, two swapped arguments, the wrong one of two similarly named variables, a `break` for a `continue`, `is None` for falsy, an early `return`. No new helper functions, no caches, no refactorings this time.
The change must still break the property for some input and keep the 74 tests passing; say in the note which untouched site you picked and why the existing proposals do not cover it.
"""

if os.environ.get("WAVE6"):
    PRIOR += """
Many ideas are taken (see the list above), so dig deeper and look at code sites nobody has touched yet. Favour changes of these kinds (at least two of your three):
  (k) PERSISTENCE: the difference only shows after the database is closed and reopened, or only for an in-memory database versus a file database, or only for a database that was created earlier and is then updated or queried by a new object (what is stored versus what is kept on the object);
  (l) SQL CONSTRUCTION: a change in how a query is put together (JOIN, ORDER BY, DISTINCT, LIMIT, GROUP BY, parameter binding, LIKE/GLOB versus =, IN lists, NULL handling, collation, an index or a pragma) that gives the same answer for tidy data but a different one for data with duplicates, NULL/'.' values, upper/lower case variants, ids that are prefixes of each other or contain SQL wildcards (%, _), or very many parameters;
  (m) TEXT EDGE CASES: empty strings, surrounding blanks, upper/lower case, numeric-looking strings ('007', '1e3', '-0'), non-ASCII letters, very long values, keys or ids containing separators or quotes, a value equal to a keyword the code treats specially ('.', 'None', 'nan', 'autoincrement', 'Parent');
  (n) ITERATOR PROTOCOL: a result that is consumed only partly, consumed twice, consumed while another result of the same object is still open, or consumed after the object was changed; generators versus lists; early `break`; `next()` without a loop;
  (o) A SECOND CODE PATH FOR THE SAME THING: the library often has two implementations of one behaviour (GFF3 importer vs GTF importer, create_db vs update, file iterator vs feature iterator vs string input, `region()` vs `limit=`, `children()` vs `parents()`, `__str__` vs `__repr__`/`astuple`, printing with vs without a dialect): change only the less travelled one;
  (p) NUMERIC EDGES: coordinates 0, 1, equal start and end, start greater than end, negative, exactly a power of two, beyond 2**31 or 2**53, given as strings or floats; counts of exactly 0, 1 or the size of an internal batch.
"""

if os.environ.get("WAVE4"):
    PRIOR += """
This time, favour changes whose trigger is one of the following (at least two of your three should be of these kinds):
  (a) SCALE: it only shows on inputs that are larger than a toy example - more lines or features than some internal threshold, batch size, window or cache size (look for numeric constants and loops with counters in the code), long attribute lists, many distinct ids, large or unusual coordinates;
  (b) LENGTH OF HISTORY: it needs a longer sequence of operations on the same object or file (four or more steps), or a specific order of operations that looks unusual but is legitimate;
  (c) RARE VALUES: it needs a specific character, number or string that a person writing small examples would not think of (but a real file could contain);
  (d) ENVIRONMENT: it depends on something outside the arguments - current directory, file name pattern or extension, existing neighbouring files, environment variables, locale/encoding, read-only locations - while still being a plausible edit;
  (e) THREE-WAY INTERACTION: it needs three options / features of the library to be used together.
"""

print(f"""You are helping evaluate a verification effort for the Python library gffutils (parses GFF/GTF genomic annotation files into a sqlite3 database). You have your own scratch git worktree of the library at {wt} (a checkout of the current code). Work ONLY inside {wt}; never touch /repo or /verif, and do not read anything under /verif.

Here is a semantic property the library is supposed to satisfy:

TITLE: {p['title']}
STATEMENT: {p['statement']}
QUANTIFIER: {p['quantifier']['text']}
CODE AREAS: {', '.join(p['anchors']['files'])}

{PRIOR}
Your task: produce {NUM} different, independent, realistic changes (bugs) to the library source under {wt}/gffutils (not the tests) such that each one:
  1. breaks the property above (for some inputs / configurations / sequences of operations),
  2. still imports and passes the existing test suite exactly as before. The pinned command, run from the worktree root, is:
       cd {wt} && /venv/bin/python -m pytest -q -p no:cacheprovider --timeout=900 --continue-on-collection-errors
     On the unmodified code this gives '2 failed, 74 passed, 1 error' (the 2 failures and the collection error are pre-existing and expected). With your change the same 74 tests must still pass and nothing else may change.
  3. looks like a plausible mistake or an innocent-looking refactoring/optimisation a developer could really make (an off-by-one, a wrong operator, a dropped clause, a cached value, state hoisted to module or object scope, two cooperating sites that each look fine alone ...), NOT a blatant sabotage, and
  4. needs something SPECIFIC to manifest: an unusual input, a particular configuration/option combination, a multi-step sequence of operations, a boundary value, a particular ordering. Ordinary everyday use (the simplest input with default options) should still work, so the bug is not exposed at once.
The changes should be in different functions or concern different aspects of the property (think of: state kept across calls or objects, ordering assumptions, boundary values, rarely used options or argument forms, interactions between two features of the library, error paths).

For each change deliver, in the directory {wt}/_out/ (create it):
  - mutantN.diff  : the change as a unified diff against the unmodified worktree (produce with `git -C {wt} diff -- gffutils > {wt}/_out/mutantN.diff` while only that change is applied; then `git -C {wt} checkout -- gffutils` before starting the next one),
  - demoN.py      : a small stand-alone program that exits 0 (prints OK) on the unmodified code and exits 1 (prints what is wrong) with the change applied. It must import gffutils from the worktree: start it with `import sys; sys.path.insert(0, "{wt}")`, use temporary files under tempfile.mkdtemp() and clean them up.
  - noteN.txt     : 3-6 lines: what the change is, why it breaks the property, and exactly what is needed for it to manifest.
Verify everything yourself: for each N, with the diff applied run the test suite (74 passed) and demoN.py (must fail); with the diff reverted run demoN.py (must pass). Use `/venv/bin/python` for everything. Leave the worktree with NO change applied at the end (git -C {wt} status must show only the untracked _out directory).

Finish with a short report: for each mutant one paragraph (file/function changed, what manifests it, test-suite result, demo result with and without).""")
