#!/venv/bin/python
"""Rewrite section 12 of DESIGN.md from /verif/seeded/*/meta.json."""
import json, glob, os, re
HERE = os.path.dirname(os.path.dirname(os.path.abspath(__file__)))
STRENGTHENED = {
 "C01-w11m1": "reported by C08 as built (a quote at the edge of a quoted value, dialect supplied)",
 "C01-w11m2": "reported by C08 as built (a fully quoted value under an unquoted dialect)",
 "C02-w11m1": "reported by C10 as built (update with 'replace' moving a grandchild to another gene)",
 "C02-w11m2": "reported by C10 as built (delete, then update bringing the id back under another parent)",
 "C02-w11m3": "reported by C10 as built ('warning' strategy with a repeated id naming another parent)",
 "C03-w11m1": "reported by C05 and C10 as built (GTF importer, 'replace' of a sub-feature keyed by exon_id)",
 "C03-w11m2": "reported by C05 as built (GTF importer, 'merge' into an '<id>_1' entry)",
 "C04-w11m1": "reported by C05 as built ('create_unique' when '<id>_1' and '<id>_2' are taken by earlier features)",
 "C04-w11m2": "reported by C13 as built (one-shot generator longer than the peek window)",
 "C04-w11m3": "reported by C07, C08 and C01 as built ('=' inside a GFF3 value, dialect supplied)",
 "C05-w11m2": "NOT reported: see section 11b (a forced-merge column in which one arrival carries '.')",
 "C07-w11m2": "NOT reported: see section 11b (a literal comma in a later key's value after repeated keys were seen)",
 "C08-w11m1": "reported by C17 as built (printing with always_return_list switched off)",
 "C09-w11m1": "NOT reported: see section 11b (a ready-made DataIterator handed to create_db next to an explicit dialect of the other format)",
 "C10-w11m2": "reported by C13 as built (one-shot iterators that are not generators)",
 "C10-w11m3": "reported by C05 as built (forced-merge column merged three times)",
 "C11-w11m1": "C11's featuretype arguments gained collections naming a type twice",
 "C11-w11m3": "C11's database gained a feature whose type is the placeholder '.'",
 "C13-w11m1": "C13's FeatureDB form now takes its features from a database keyed by an id_spec of its own",
 "C13-w11m2": "reported by C12 as built (bin of a feature moved after construction)",
 "C13-w11m3": "NOT reported: see section 11b (bytes that are not UTF-8 in a gzip file)",
 "C15-w11m1": "C15 'unstranded' gained a stranded transcript listed before the unstranded one (labels are per transcript)",
 "C15-w11m2": "C15 'unstranded' gained an ncRNA with exons: a transcript for the gene selection, none for parent_featuretype='mRNA'",
 "C15-w11m3": "C15 'unstranded' gained CDS children and asks introns / splice sites with exon_featuretype='CDS'",
 "C16-w11m1": "C16's criteria gained overlap_start_threshold(3), a threshold longer than the short features",
 "C18-w11m2": "C18's FASTA is now soft-masked in the middle (case is content)",
 "C19-w11m1": "C19's updated old database now holds 13 features - more than an importer inspects before it starts writing - so the 'selfdb' input still has a read open when the file is replaced",
 "C20-w11m1": "C20's single-gene GTF now has a blank in its gene_id",
 "C20-w11m2": "C20 gained the job 'transcript inference off only' over the single-transcript GTF (exactly one feature left to infer)",
 "C01-w9m2": "reported by C05 as strengthened for C10-w8m1 (X_1 and X_2 both taken)",
 "C02-w9m2": "C02's multi-parent lines gained the style 'first parent named a second time'",
 "C02-w9m3": "C02's order_by options gained a list holding 'length'",
 "C04-w9m2": "C04's GTF part gained a gene id with a per-cent escape (GTF has none: the id is those characters)",
 "C04-w9m3": "C04's third line with two ID values now carries the same value twice",
 "C07-w9m2": "C07's non-strict rendering is also made with two blanks at every column boundary",
 "C09-w9m1": "C09 'cons' also builds Feature objects from the raw attribute text (no dialect given)",
 "C09-w9m2": "C09 'corners' gained first keys beginning with a digit / a non-ASCII letter",
 "C09-w9m3": "C09 'corners' gained a column whose every value is an empty quoted string",
 "C10-w9m1": "reported by C05, whose arrivals gained 'only the frame differs'",
 "C10-w9m2": "C10's event A:mark passes both callbacks: parent and child are rewritten",
 "C13-w9m3": "C13's inspect part gained an annotation whose features have no attributes",
 "C14-w9m1": "reported by C13 as built (a transform that drops a feature must not end the pass)",
 "C14-w9m2": "reported by C13, whose forms gained a file with bare-CR line ends",
 "C13-w9m2": "reported by C14 as built (directives further down a file that has no header directive)",
 "C15-w9m2": "C15's transcripts gained a child with an exon of its own (primary_transcript -> miRNA -> exon)",
 "C17-w9m3": "C17's 'set' part gained a feature parsed from a line with an empty ninth column",
 "C18-w9m2": "C18's nested block now lies strictly inside the LAST exon (blocks in end order would still end at the feature's end)",
 "C18-w9m3": "C18 also passes use_strand=1 (truthy, not the bool True)",
 "C19-w9m1": "C19's database file does not always end in '.db'",
 "C19-w9m3": "C19 'clobber' gained the input form 'the old database itself, as a FeatureDB on the very path'",
 "C20-w9m1": "C20 'hashseeds' gained a key whose third line must merge into the '<key>_1' entry, and a GTF job whose exons are shared by transcripts",
 "C20-w9m2": "C20's second input carries an id with a blank (it travels through the intermediate file as a grandparent)",
 "C20-w9m3": "reported by C20 'hashseeds' (GTF job) and by C05",
 "C01-w8m1": "file shape 'escapes' and C07's escape alphabet gained a value of two words; C07 now also parses every line with the dialect handed over and demands the inferred parse (C08 reported it as built)",
 "C01-w8m3": "reported by C13 as built (file reader's window one line short); C09 reports it too",
 "C03-w8m2": "reported by C12 and C01 as built (a feature ending exactly at 2**29)",
 "C06-w8m2": "C06's leaf now names the root too (related at two levels) and 'each feature once' is judged before the helper features are filtered out (C10 reported it as built)",
 "C09-w8m3": "C09 gained part 'corners': single attribute columns at the corners of the inference rules (a key repeated after an empty first occurrence; '=' inside a quoted GTF value; quoted values under key=value)",
 "C10-w8m1": "reported by C05, which gained sequences in which X_1 and X_2 are both taken before the later arrivals",
 "C14-w8m3": "reported by C05 as built ('warning' stops the import at the first repeated id)",
 "C15-w8m2": "C15 asks create_splice_sites(numeric_sort=True) and checks the sites' attributes",
 "C18-w8m1": "C18 gained nested blocks of two types: the block that starts last stops early, so ValueError is due",
 "C20-w8m1": "C20 gained part 'hashseeds': the same merging import in fresh interpreters under six string-hash seeds must give one database (attribute values compared as sets)",
 "C20-w8m2": "C20 gained the job 'transcript inference off only'; an ordinary solitary import that raises is reported as a violation instead of stopping the run",
 "C01-w7m2": "reported by C07 as built; C01's 'escapes' shape gained values whose only character to escape is a control character",
 "C02-w7m1": "reported by C10 as built (4-deep hierarchy, then any update)",
 "C04-w7m1": "C04's callable id_spec now returns an 'autoincrement:' base that itself holds a colon",
 "C11-w7m2": "reported by C10 as built (listings asked, delete, listings asked again - the read battery)",
 "C12-w7m1": "C12 had the right question but asked it second: the 'other convention first' variant is now the FIRST execution a worker makes for a pair, so a memo keyed without the convention is filled by the other convention (before, detection depended on which worker got which shard)",
 "C15-w7m2": "C15's numerically sorted values gained different spellings of one number ('200.0' / '2e2')",
 "C20-w7m2": "C20's solitary reference runs are now made in forked children before the controlling process imports anything, so its first import is the warm-up in the shared directory; a body that stops early because the code under test failed is a finding, not a replay divergence; C20 confirms order-dependent violations by replaying the worker's history",
 "C01-w6m1": "file shape 'flags' gained comma lists with an empty element (doubled / trailing comma)",
 "C01-w6m2": "C01 now opens and consumes other results of the same object while an iteration over the database is open (nested, lock-step, look-ups)",
 "C01-w6m3": "file shape 'dots_extras' gained a feature ending exactly at 2**29",
 "C02-w6m1": "C02's ids now include one that looks like the 'autoincrement:' keyword, a quote, SQL wildcards and an escaped per-cent sign",
 "C02-w6m3": "C02 writes several parents either as a comma list or by repeating the Parent key (the rest of the file has nothing to repeat)",
 "C03-w6m1": "C03 gained an exon set starting at coordinate 0",
 "C03-w6m2": "reported by C10 as built (counter of a featuretype first seen in an update, then reopen)",
 "C03-w6m3": "C03 now follows the import with an update() bringing a brand-new gene and applies the same derivation rules to it",
 "C04-w6m1": "reported by C10 as built (stored dialect after an update with other-format data, seen on reopening)",
 "C04-w6m2": "C04 gained the ':start:' id_spec forms with a feature starting at 0",
 "C04-w6m3": "reported by C10: new large history feeding update() lazily from merge() with more items than the peek window, then an id-less feature whose key must be new",
 "C05-w6m1": "C05 gained force_merge_fields named in non-alphabetical order (all importers incl. GTF)",
 "C05-w6m2": "C05 arrivals gained a line naming one value twice; merged features must be repeat-free, unmerged ones keep what was written",
 "C05-w6m3": "C05 gained the importer 'create_db with a coordinate-moving transform' (the feature's bin at parse time differs from the stored one)",
 "C06-w6m1": "C06 databases B and G use sequence names with '.', '-', '_' and a vertical bar",
 "C06-w6m2": "C06 gained database G, built by the GTF importer",
 "C06-w6m3": "C06 gained strand '.' as a query restriction (databases B and G)",
 "C07-w6m1": "C07 raw values gained two consecutive blanks inside a value",
 "C07-w6m2": "reported by C08 as built (repeated keys under a supplied dialect)",
 "C08-w6m1": "C08 gained part 'batch': every value of length <= 2 printed under one dialect, all lines in one text read back through path / gzip / from_string (also reported by C13 and C14)",
 "C08-w6m2": "C08 prints each value once with the library-wide 'do not escape' switch on before the switch-off print that is judged",
 "C08-w6m3": "reported by C07 as built (coordinates beyond 2**53)",
 "C09-w6m1": "reported by C10, which gained an update bundle written in another (consistent) dialect than the database",
 "C09-w6m3": "C09 'cons' now asks the same text as a string and demands the path form's dialect for every checklines value",
 "C10-w6m3": "C10 gained a second large history: updates fed from a one-shot generator / from merge() with more items than the importer's peek window",
 "C11-w6m1": "C11's database gained feature types with an apostrophe, differing only by case, and at an SQL-wildcard position; asked as str, list, tuple and set",
 "C12-w6m1": "reported by C06 as built (limit= ending exactly at 2**29)",
 "C12-w6m2": "C12 builds Features from coordinates given as text and as floats holding integers",
 "C12-w6m3": "reported by C06, whose Feature-form query may now be a Feature moved after construction",
 "C13-w6m3": "reported by C14 as built (directives after the peek window)",
 "C14-w6m1": "reported by C10 as built (directives after update and reopen)",
 "C14-w6m2": "C14's directive lines gained trailing blanks (odd ones)",
 "C14-w6m3": "C14's comment / pragma / directive lines gained U+2028, form feed and NEL, which only str.splitlines() takes for line ends",
 "C15-w6m1": "C15 gained part 'unstranded': gaps and site positions as usual, and no five-/three-prime label without a strand to go by",
 "C15-w6m2": "C15 features gained signed numbers and exponent notation among the values sorted numerically",
 "C16-w6m1": "C16 compares the database through a second connection after merge_all (committed?)",
 "C16-w6m2": "C16's exons name both transcript and gene; children_bp is also asked through the gene (related at two levels)",
 "C16-w6m3": "C16 gained the pattern 'sequence name containing a comma' for runs of at most two members",
 "C17-w6m1": "C17 compares every view of the mapping (items, values, get, iteration) with the item view under both switch settings",
 "C17-w6m3": "C17's JSON mappings alternate between ordinary keys and keys with a meaning in Python ('self', 'kwargs', '__class__')",
 "C18-w6m1": "C18's blocks name transcript and gene; bed12 is also asked through the gene (reported by C10 as built, too)",
 "C18-w6m2": "C18's decoy children gained types differing only by case / at an SQL-wildcard position (C11 reports it as well)",
 "C18-w6m3": "reported by C10 as built (stale look-ups after an update fed lazily from the same object)",
 "C19-w6m1": "C19's databases are imported with a two-line dialect window and hold later keys; single read calls are also made on objects opened with keep_order / sort_attribute_values / pragmas",
 "C19-w6m3": "C19 'clobber' gained the database path forms relative and symbolic link (relative link text, other current directory); the call runs from a scratch working directory",
 "C20-w6m1": "quick had dropped the GTF+GTF pair a few hours earlier; restored (another same-format pair is left out instead)",
 "C20-w6m2": "C20 gained a job whose output file is named like the forced job's output plus a suffix, in the same directory",
 "C20-w6m3": "C20 gained a job run with verbose='debug'",
 "C01-w5m3": "reported by C13 as built (one-shot iterator forms: every item must arrive exactly once)",
 "C02-w5m2": "reported by C10, whose live-object oracle now asks children(featuretype=...) with a type that only the update introduced",
 "C03-w5m3": "reported by C13 as built (one-shot non-generator iterables of Feature objects)",
 "C04-w5m2": "C04 now also looks up Feature objects that came from ANOTHER database (same id, different row position)",
 "C04-w5m3": "C04 gained the custom gtf_gene_key / gtf_transcript_key options with id_spec=None (distinct attribute names for the two keys)",
 "C05-w5m2": "reported by C10: its alphabet gained a delete of a feature that has recorded duplicates (I:dups), duplicates table compared with the model",
 "C05-w5m3": "C05 gained replace-merges where the incoming feature has no Parent while the replaced one had",
 "C06-w5m2": "reported by C10, whose live-object oracle now asks region() on a seqid that only the update introduced",
 "C07-w5m3": "reported by C08 as built (escaped comma inside a value, dialect supplied)",
 "C08-w5m2": "reported by C07 as built (two or more extra columns)",
 "C08-w5m3": "C08 alphabet gained a C1 control character (U+0085) next to U+2028",
 "C09-w5m1": "C09 gained files whose inspected lines include one with an empty attributes column between lines with attributes",
 "C09-w5m2": "C09 gained force_gff=True on GTF-written input, with inferred and with supplied dialect (the supplied dict must stay untouched)",
 "C10-w5m1": "C10's delete events gained the argument forms generator / one-shot iterator of ids next to list and single id",
 "C10-w5m3": "C10 gained add_relation events naming ids that do not exist (must raise and leave the relations untouched)",
 "C11-w5m2": "reported by C10 as built (add_relation with a child_func: the rewritten feature keeps its position)",
 "C12-w5m1": "C12 gained empty and one-base intervals at 0 and at every bin boundary",
 "C12-w5m2": "C12 now mutates every returned set and asks again (a returned set must not be shared state)",
 "C12-w5m3": "reported by C06 as built (features stored in a coarser bin than the query region's own)",
 "C13-w5m1": "reported by C14, which gained the CRLF + gzip form with blank lines and directives",
 "C13-w5m2": "C13's Feature-object forms now use features carrying their own, different dialect; the iterated print-outs are compared with the path form",
 "C13-w5m3": "C13 wraps the supplied iterable in a counting iterator: inspect(limit=n) may not consume more than it reports",
 "C14-w5m1": "reported by C10: its initial database now carries directives and every state compares db.directives with the model",
 "C14-w5m2": "C14 gained GTF-written annotations with directives (database side)",
 "C14-w5m3": "C14 builds two from_string iterators with different texts before consuming the first (both must keep their own text and directives)",
 "C15-w5m1": "C15 recomputes introns / splice sites on the same live object after an update that adds a transcript",
 "C15-w5m2": "C15 gained the empty and the one-feature input to interfeatures",
 "C15-w5m3": "C15 gained neighbours with identical attributes and checks that no input feature was modified or shares its attribute dict with an output",
 "C16-w5m1": "C16 now also calls children_bp / merge with the documented positional argument order",
 "C16-w5m2": "C16's criteria alphabet gained callbacks that refuse with falsy non-False values (0, None, '')",
 "C16-w5m3": "C16 gained merge_criteria=[] and () (vacuously accepting: one run per seqid/strand group)",
 "C17-w5m2": "C17's value forms gained tuples (and 1-tuples) next to lists and scalars",
 "C17-w5m3": "C17 checks that merge_attributes leaves both arguments (including bare-string values) untouched",
 "C18-w5m1": "C18's bed12 gained list-valued block/thick featuretype arguments",
 "C18-w5m2": "C18 now also calls sequence(fasta, use_strand) positionally",
 "C19-w5m1": "C19 gained 'pending failed write, then read calls': reads may neither issue write statements nor commit",
 "C19-w5m2": "C19 gained invalid create_db calls (bad merge_strategy / bad id_spec callable) against an existing database file with force=False",
 "C19-w5m3": "C19's forced re-import now uses an existing database that is NEWER than the annotation and holds different content and directives",
 "C20-w5m1": "C20 gained jobs that fail (duplicate ids with merge_strategy='error') and jobs without relation inference; leftovers are checked after every job kind",
 "C20-w5m2": "E3 gained torn first writes; C20 gained the pair that imports the identical text as a string (pre-emption bound 2 quick / 3 thorough)",
 "C14-w4m1": "C14 gained the 'gzip path with CRLF line ends' input form (C13 gained CRLF forms too)",
 "C14-w4m2": "C14 alphabet gained the '#!pragma' comment line",
 "C12-w4m1": "reported by C06 (query side of the bin index)",
 "C12-w4m2": "reported by C10, which now checks every stored row's bin against its coordinates and replaces a feature across a bin boundary",
 "C12-w4m3": "reported by C15, which now places features across the first bin boundary and checks each yielded feature's bin",
 "C07-w4m2": "C07 (and C01) gained coordinates beyond 2**53",
 "C07-w4m3": "C07 escape characters gained %00 and %1F",
 "C06-w4m1": "C06 gained a form that consumes two region() results in lock step",
 "C08-w4m2": "C08 now edits a dialect dictionary between two uses",
 "C08-w4m3": "C08 gained 15 long strings, each parsed under a 20 s termination guard",
 "C18-w4m1": "C18 FASTA gained IUPAC ambiguity codes",
 "C18-w4m2": "C18 transcripts can now begin at coordinate 1",
 "C18-w4m3": "C18 gained a FASTA with an outdated .fai lying next to it",
 "C15-w4m1": "C15 gained the always_return_list dimension",
 "C15-w4m2": "C15 gained a neighbour carrying two ID values",
 "C16-w4m1": "C16 gained one 1700-feature database (a 1300-member run)",
 "C16-w4m3": "C16 now hands the criteria over as list / tuple / iterator / generator (rotated)",
 "C11-w4m1": "C11 gained a 662-entry featuretype collection",
 "C11-w4m2": "C11 gained the interleaved listing/count loop",
 "C17-w4m1": "C17 equality part now hashes a feature, edits it into another one and compares again",
 "C09-w4m1": "reported by C07, whose GTF-style values gained raw '=', '&', '%', '+'",
 "C09-w4m2": "reported by C10, which now compares the dialect reported live and after reopening with the original one",
 "C09-w4m3": "reported by C01, which now compares the database dialect before and after printing",
 "C13-w4m1": "file shapes gained values containing U+2028 / U+0085 (and a literal '+')",
 "C13-w4m3": "C13 gained a path whose name contains '.gz' without being a gzip file",
 "C19-w4m1": "C19 gained an old database whose features had all been deleted",
 "C19-w4m2": "C19 gained 'new input given as Feature objects' with an absolute expectation for the directives",
 "C20-w4m2": "C20 gained one solitary 13 000-line import (12 000 second-level relations)",
 "C20-w4m3": "reported by C10, which gained a set_pragmas event and a fingerprint of the library's module-level settings",
 "C02-w4m1": "C02: one id now contains a comma (written %2C)",
 "C02-w4m2": "C02 gained one 7800-line file (6000 second-level relations) in three line orders",
 "C10-w4m2": "C10 gained one large history (1000 ids deleted in a single call)",
 "C10-w4m3": "C10 now leaves an unrelated, newer-looking .bak next to the database before every backed-up operation",
 "C04-w4m1": "reported by C19 (same change as C19-m1)",
 "C04-w4m2": "C04 GTF part gained custom id_specs with inference enabled",
 "C04-w4m3": "C04 GTF part gained force_gff=True",
 "C05-w4m1": "C05 arrival alphabet gained undefined ('.') coordinates",
 "C05-w4m2": "C05 gained 14-16 arrival sequences (thirteen column-distinct variants, then arrivals agreeing with late ones)",
 "C05-w4m3": "C05 gained the 'merge' strategy with verbose='debug'",
 "C03-w4m1": "C03 gained one 2400-line GTF (1200 transcripts)",
 "C03-w4m2": "C03: one gene id now contains a blank",
 "C03-w4m3": "C03 input files are now named *.gtf / *.gff / *.gff3 / *.txt in rotation",
 "C01-w4m1": "file shapes gained a literal '+' in a value",
 "C01-w4m2": "C01 gained sort_attribute_values=True on unsorted input and compares the feature before/after printing",
 "C01-w4m3": "file shapes gained coordinates beyond 2**53",

 "C18-w3m1": "C18 sequence part gained a FASTA path whose content was replaced between two calls",
 "C18-w3m2": "C18 bed12 part gained the always_return_list dimension",
 "C08-w3m2": "C08 now prints every feature twice and compares the attributes before/after",
 "C13-w3m3": "C13 gained a second live iterator of the same form over another annotation",
 "C12-w3m2": "C12 now asks both conventions in one execution, in both orders",
 "C03-w3m2": "engine: order-dependent violations are confirmed by replaying the reporting worker's execution history in a fresh process",
 "C14-w3m1": "C14 gained a second iterator alive at the same time",
 "C14-w3m3": "C14 alphabet gained the bare '##' line",
 "C17-w3m3": "C17 JSON part now edits a decoded mapping in place and decodes the same text again",
 "C15-w3m2": "C15 features gained a multi-valued unsorted key carried by only one neighbour",
 "C11-w3m1": "C10 now performs ordinary reads between operations and compares the live object's counts and look-ups (reported by C10: the trigger is a delete between two counts)",
 "C07-w3m2": "C07 column variants gained single extra columns holding JSON literals / empty text",
 "C05-w3m1": "caught as built (its first run hit an unrelated one-off engine error under load)",
 "C20-w3m1": "C20: the controller runs a solitary import with the shared temp dir before forking; the vacuity self-check no longer masks violations",
 "C20-w3m2": "C20 gained a scheduling point at job start (start offsets) and a force=True job over an existing database",
 "C20-w3m3": "C20 gained a job whose input is a file:// URL",
 "C02-w3m2": "C02 gained nested and interleaved consumption of two result iterators",
 "C02-w3m3": "reported by C10 (the trigger is an update of a 4-deep hierarchy)",
 "C01-w3m1": "C01 'late' shape now introduces late keys in non-alphabetical order",
 "C01-w3m3": "reported by C07; C01 files gained lines with only one '.' coordinate",
 "C04-w3m1": "C04 gained the 'ID=' (present but empty) line kind",
 "C04-w3m3": "C04 now edits a looked-up feature and looks it up again; C10 reports the delete variant",
 "C16-w3m2": "C16 database part gained merge_all with non-default criteria",
 "C16-w3m3": "engine history replay; C16 also gained the 'after children_bp(merge=True)' object history",
 "C09-w3m1": "grammar gained the key=\"value\" style (12 more dialects in C01/C07/C09)",
 "C09-w3m2": "C09 mixtures gained lines with an empty attribute column (weight 0)",
 "C09-w3m3": "C09 now edits one infer_dialect answer and asks again",
 "C19-w3m1": "C19 gained a 4-deep hierarchy and level=3 relative queries",
 "C19-w3m2": "C19 clobber part opens the old database in-process first and inspects the object returned by the forced import (plus engine history replay)",
 "C19-w3m3": "C19 gained a GTF database built with inference disabled and look-ups of absent ids",

 "C01-m2": "C01 file shapes gained empty trailing extra columns",
 "C05-m1": "C05 now compares level-2 relations (GFF3 grandparents, GTF gene_id) as well as level-1",
 "C09-m1": "C09 gained the cross-form check (list of Features vs path); C13 caught it as built",
 "C17-m1": "C17 merge values gained distinct strings equal as numbers ('5'/'5.0', '7'/'007')",
 "C15-m2": "C15 features gained a numeric value shared by both neighbours",
 "C12-m2": "C12 now stores a feature whose coordinates changed after construction (astuple bin)",
 "C06-m1": "C06 gained database T, imported through a coordinate-moving transform",
 "C20-m1": "C20 output files now share one basename in different directories",
 "C20-m2": "C20 gained a CDS-only GTF job (nothing to infer)",
 "C18-m1": "C18 gained CDS lines written in descending order",
 "C10-m1": "C10 gained a second initial database without any id counter",
 "C16-m1": "C16 quick gained 4-interval multisets (two multi-member runs in one call)",
 "C16-m2": "C16 database part gained descending file order",
}
rows = []
for p in sorted(glob.glob(os.path.join(HERE, "seeded", "*", "meta.json"))):
    m = json.load(open(p))
    note = (m.get("needs_to_manifest") or "").strip().replace("\n", " ")
    note = re.sub(r"\s+", " ", note)
    if len(note) > 230:
        note = note[:227] + "..."
    rows.append("| %s | %s | %s | %s |" % (m["id"], ", ".join(m.get("detected_by") or ["**none**"]), note.replace("|", "/"), STRENGTHENED.get(m["id"], "caught as built")))
N_MISSED = N_OTHER = 0
for p in sorted(glob.glob(os.path.join(HERE, "seeded", "*", "meta.json"))):
    m = json.load(open(p))
    ran = [r for r in m.get("ran", []) if r.startswith("./check")]
    own = [r for r in ran if (" " + m["property"] + " ") in r]
    if own and "exit 1" not in own[0]:
        N_MISSED += 1
        if any("exit 1" in r for r in ran):
            N_OTHER += 1
text = """
## 12. Seeded property-breaking changes and which check catches which

Each change below was written by a fresh sub-agent that was given only the text of one property and a
scratch git worktree of /repo (nothing from /verif); the third wave (ids `*-w3m*`) was additionally told
which changes earlier agents had proposed for that property (their own notes, nothing about the checks)
and asked for different mechanisms - state kept across calls, ordering, boundaries, rarely used options;
the fourth wave (`*-w4m*`) was asked for changes that need SCALE (inputs larger than internal thresholds),
long histories, rare values, environment conditions or three-way option interactions, i.e. changes aimed
at what small-scope exhaustive checking is most likely to miss; the fifth wave (`*-w5m*`) was told all
earlier proposals and asked for error paths (what happens after something legitimately fails), argument
forms (generator vs list, positional vs keyword, Feature vs id, tuple vs list), one public method changing
what another later returns, shared or subtly different defaults, and off-by-one at documented boundaries.
The sixth wave
(`*-w6m*`) was asked for persistence (visible only after reopening / only for file databases), SQL
construction, text edge cases, the iterator protocol, the less travelled of two code paths for one behaviour,
and numeric edges. The seventh wave (`*-w7m*`) repeated the very first prompt (two changes per property, no hints,
no list of earlier proposals) as a measurement of the checks as they stood after six waves: of its 40 changes 35 were
reported straight away (33 by the property's own check), 4 were not reported and 1 only on some runs (see C12-w7m1). The eighth wave (`*-w8m*`) was told every earlier proposal and asked to strike out the code sites those touch and
to make three one-token / one-line changes at sites nobody had touched. A ninth wave (`*-w9m*`) repeated the eighth's instructions with the longer list of taken sites; its reports were read before its
changes were tried, and the checks were extended first where a report named something no check asked (so 'caught as built' is not
claimed for that wave: the last column says what was added). A tenth wave (`*-w10m*`) repeated the very first, naive prompt once more on the final
checks, as a closing measurement: all 40 of its changes were reported as built, every one by its own property's quick check on the first
run (no check was touched for it). An eleventh wave (`*-w11m*`), started in the last two hours, repeated the eighth's instructions (every earlier
proposal listed, one-token or one-line changes at code sites nobody had touched): 52 proposals, 4 dropped as outside the statements (a region or
limit starting at 0, twice; lone surrogates; a feature type that is the empty string, which the unchanged listing calls read as 'no filter'), 48 kept.
Of the 48, 33 were reported as built (18 by the property's own check, 15 by another property's check), 11 after the named check was extended
(last column), and 4 are NOT reported at the end: they are marked **none** below and described in section 11b. %d of the %d changes were not reported by their own property's check as it stood when they
were first tried (%d of those were reported by another property's check straight away); all but the four of the eleventh wave just mentioned are now. Four
proposals were dropped, not kept as seeded changes: four (C02, C04, C10 in the fifth wave, C10 in the sixth)
only alter what a FAILED update leaves in the main database file, which the statements leave open (C10 only
demands the backup file; the checks deliberately do not judge the main file there), so reporting them would
be demanding more than the properties state. Six eighth-wave proposals were dropped as outside the statements: `level=0` on children()/parents() (C02 speaks of
levels 1, 2 and their union), a region starting at 0 (C06 quantifies over 1 <= start), lone surrogates that JSON text holds
but sqlite cannot store (C17 is about the JSON text and back, which still holds), an IndexError reachable only through the
`leading semicolon` dialect flag that inference never sets and C08 does not list, the private `_keep_tempfiles` argument
given as None (C20), and `ANALYZE` run when a database without statistics is opened (C19 lists features, relations,
directives, dialect and id counters - all unchanged). Two ninth-wave proposals were dropped likewise: the deprecated `infer_gene_extent=False` spelling (C03 names the
`disable_infer_*` flags) and `os.truncate` for `os.unlink` under force=True, which only shows through a hard link to the old file or a
reader that still has it open (C19 speaks of the path's content). One sixth-wave change (merge criterion on sequence names holding
a comma) is kept but only judged on runs of two members, see C16's assumptions. Scale is handled by adding, per property, one or two
deliberately large executions next to the exhaustive small-scope exploration (C02, C03, C10, C16, C20);
those are single cases, not an exhaustive sweep, and are labelled so in the evidence. Each was then confirmed here in a scratch copy
outside /repo and /verif (`tools/seed.py`): the agent's demonstration passes on the unmodified copy, the
patch applies, the pinned suite still shows 74 passed, the demonstration fails on the patched copy; the
quick check(s) were run against the patched copy with `GV_REPO`. Kept as `/verif/seeded/<id>/`
(`patch.diff`, `demo.py`, `meta.json`). %d changes; %d are reported by a quick check on every run.
Where a check first missed a change it was strengthened (last column) and the change re-tested; nothing
was weakened. Hand-made mutants used while building are in `/verif/mutants/`.

| id | reported by | the change and what it needs to manifest (agent's note, abridged) | how it was caught |
|----|-------------|-------------------------------------------------------------------|-------------------|
%s
""" % (N_MISSED, len(rows), N_OTHER, len(rows), sum(1 for r in rows if "**none**" not in r), "\n".join(rows))
p = os.path.join(HERE, "DESIGN.md")
s = open(p).read()
i = s.find("\n## 12. Seeded property-breaking")
if i >= 0:
    s = s[:i]
open(p, "w").write(s.rstrip("\n") + "\n" + text)
print("section 12 rewritten: %d rows" % len(rows))
