#!/venv/bin/python
"""Rewrite section 12 of DESIGN.md from /verif/seeded/*/meta.json."""
import json, glob, os, re
HERE = os.path.dirname(os.path.dirname(os.path.abspath(__file__)))
STRENGTHENED = {
 "C01-m2": "C01 file shapes gained empty trailing extra columns",
 "C05-m1": "C05 now compares level-2 relations (GFF3 grandparents, GTF gene_id) as well as level-1",
 "C09-m1": "C09 gained the cross-form check (list of Features vs path); C13 caught it as built",
 "C17-m1": "C17 merge values gained distinct strings equal as numbers ('5'/'5.0', '7'/'007')",
 "C15-m2": "C15 features gained a numeric value shared by both neighbours",
 "C12-m2": "C12 now stores a feature whose coordinates changed after construction (astuple bin)",
 "C06-m1": "C06 gained database T, imported through a coordinate-moving transform",
 "C20-m1": "C20 output files now share one basename in different directories",
 "C20-m2": "C20 gained a CDS-only GTF job (nothing to infer)",
 "C18-m1": "C18 gained CDS lines written in descending order",
 "C10-m1": "C10 gained a second initial database without any id counter",
 "C16-m1": "C16 quick gained 4-interval multisets (two multi-member runs in one call)",
 "C16-m2": "C16 database part gained descending file order",
}
rows = []
for p in sorted(glob.glob(os.path.join(HERE, "seeded", "*", "meta.json"))):
    m = json.load(open(p))
    note = (m.get("needs_to_manifest") or "").strip().replace("\n", " ")
    note = re.sub(r"\s+", " ", note)
    if len(note) > 230:
        note = note[:227] + "..."
    rows.append("| %s | %s | %s | %s |" % (m["id"], ", ".join(m.get("detected_by") or ["**none**"]), note.replace("|", "/"), STRENGTHENED.get(m["id"], "caught as built")))
text = """
## 12. Seeded property-breaking changes and which check catches which

Each change below was written by a fresh sub-agent that was given only the text of one property and a
scratch git worktree of /repo (nothing from /verif). Each was then confirmed here in a scratch copy
outside /repo and /verif (`tools/seed.py`): the agent's demonstration passes on the unmodified copy, the
patch applies, the pinned suite still shows 74 passed, the demonstration fails on the patched copy; the
quick check(s) were run against the patched copy with `GV_REPO`. Kept as `/verif/seeded/<id>/`
(`patch.diff`, `demo.py`, `meta.json`). %d changes; %d are reported by a quick check on every run.
Where a check first missed a change it was strengthened (last column) and the change re-tested; nothing
was weakened. Hand-made mutants used while building are in `/verif/mutants/`.

| id | reported by | the change and what it needs to manifest (agent's note, abridged) | how it was caught |
|----|-------------|-------------------------------------------------------------------|-------------------|
%s
""" % (len(rows), sum(1 for r in rows if "**none**" not in r), "\n".join(rows))
p = os.path.join(HERE, "DESIGN.md")
s = open(p).read()
i = s.find("\n## 12. Seeded property-breaking")
if i >= 0:
    s = s[:i]
open(p, "w").write(s.rstrip("\n") + "\n" + text)
print("section 12 rewritten: %d rows" % len(rows))
