#!/venv/bin/python
"""Rewrite section 12 of DESIGN.md from /verif/seeded/*/meta.json."""
import json, glob, os, re
HERE = os.path.dirname(os.path.dirname(os.path.abspath(__file__)))
STRENGTHENED = {
 "C18-w3m1": "C18 sequence part gained a FASTA path whose content was replaced between two calls",
 "C18-w3m2": "C18 bed12 part gained the always_return_list dimension",
 "C08-w3m2": "C08 now prints every feature twice and compares the attributes before/after",
 "C13-w3m3": "C13 gained a second live iterator of the same form over another annotation",
 "C12-w3m2": "C12 now asks both conventions in one execution, in both orders",
 "C03-w3m2": "engine: order-dependent violations are confirmed by replaying the reporting worker's execution history in a fresh process",
 "C14-w3m1": "C14 gained a second iterator alive at the same time",
 "C14-w3m3": "C14 alphabet gained the bare '##' line",
 "C17-w3m3": "C17 JSON part now edits a decoded mapping in place and decodes the same text again",
 "C15-w3m2": "C15 features gained a multi-valued unsorted key carried by only one neighbour",
 "C11-w3m1": "C10 now performs ordinary reads between operations and compares the live object's counts and look-ups (reported by C10: the trigger is a delete between two counts)",
 "C07-w3m2": "C07 column variants gained single extra columns holding JSON literals / empty text",
 "C05-w3m1": "caught as built (its first run hit an unrelated one-off engine error under load)",
 "C20-w3m1": "C20: the controller runs a solitary import with the shared temp dir before forking; the vacuity self-check no longer masks violations",
 "C20-w3m2": "C20 gained a scheduling point at job start (start offsets) and a force=True job over an existing database",
 "C20-w3m3": "C20 gained a job whose input is a file:// URL",
 "C02-w3m2": "C02 gained nested and interleaved consumption of two result iterators",
 "C02-w3m3": "reported by C10 (the trigger is an update of a 4-deep hierarchy)",
 "C01-w3m1": "C01 'late' shape now introduces late keys in non-alphabetical order",
 "C01-w3m3": "reported by C07; C01 files gained lines with only one '.' coordinate",
 "C04-w3m1": "C04 gained the 'ID=' (present but empty) line kind",
 "C04-w3m3": "C04 now edits a looked-up feature and looks it up again; C10 reports the delete variant",
 "C16-w3m2": "C16 database part gained merge_all with non-default criteria",
 "C16-w3m3": "engine history replay; C16 also gained the 'after children_bp(merge=True)' object history",
 "C09-w3m1": "grammar gained the key=\"value\" style (12 more dialects in C01/C07/C09)",
 "C09-w3m2": "C09 mixtures gained lines with an empty attribute column (weight 0)",
 "C09-w3m3": "C09 now edits one infer_dialect answer and asks again",
 "C19-w3m1": "C19 gained a 4-deep hierarchy and level=3 relative queries",
 "C19-w3m2": "C19 clobber part opens the old database in-process first and inspects the object returned by the forced import (plus engine history replay)",
 "C19-w3m3": "C19 gained a GTF database built with inference disabled and look-ups of absent ids",

 "C01-m2": "C01 file shapes gained empty trailing extra columns",
 "C05-m1": "C05 now compares level-2 relations (GFF3 grandparents, GTF gene_id) as well as level-1",
 "C09-m1": "C09 gained the cross-form check (list of Features vs path); C13 caught it as built",
 "C17-m1": "C17 merge values gained distinct strings equal as numbers ('5'/'5.0', '7'/'007')",
 "C15-m2": "C15 features gained a numeric value shared by both neighbours",
 "C12-m2": "C12 now stores a feature whose coordinates changed after construction (astuple bin)",
 "C06-m1": "C06 gained database T, imported through a coordinate-moving transform",
 "C20-m1": "C20 output files now share one basename in different directories",
 "C20-m2": "C20 gained a CDS-only GTF job (nothing to infer)",
 "C18-m1": "C18 gained CDS lines written in descending order",
 "C10-m1": "C10 gained a second initial database without any id counter",
 "C16-m1": "C16 quick gained 4-interval multisets (two multi-member runs in one call)",
 "C16-m2": "C16 database part gained descending file order",
}
rows = []
for p in sorted(glob.glob(os.path.join(HERE, "seeded", "*", "meta.json"))):
    m = json.load(open(p))
    note = (m.get("needs_to_manifest") or "").strip().replace("\n", " ")
    note = re.sub(r"\s+", " ", note)
    if len(note) > 230:
        note = note[:227] + "..."
    rows.append("| %s | %s | %s | %s |" % (m["id"], ", ".join(m.get("detected_by") or ["**none**"]), note.replace("|", "/"), STRENGTHENED.get(m["id"], "caught as built")))
text = """
## 12. Seeded property-breaking changes and which check catches which

Each change below was written by a fresh sub-agent that was given only the text of one property and a
scratch git worktree of /repo (nothing from /verif); the third wave (ids `*-w3m*`) was additionally told
which changes earlier agents had proposed for that property (their own notes, nothing about the checks)
and asked for different mechanisms - state kept across calls, ordering, boundaries, rarely used options. Each was then confirmed here in a scratch copy
outside /repo and /verif (`tools/seed.py`): the agent's demonstration passes on the unmodified copy, the
patch applies, the pinned suite still shows 74 passed, the demonstration fails on the patched copy; the
quick check(s) were run against the patched copy with `GV_REPO`. Kept as `/verif/seeded/<id>/`
(`patch.diff`, `demo.py`, `meta.json`). %d changes; %d are reported by a quick check on every run.
Where a check first missed a change it was strengthened (last column) and the change re-tested; nothing
was weakened. Hand-made mutants used while building are in `/verif/mutants/`.

| id | reported by | the change and what it needs to manifest (agent's note, abridged) | how it was caught |
|----|-------------|-------------------------------------------------------------------|-------------------|
%s
""" % (len(rows), sum(1 for r in rows if "**none**" not in r), "\n".join(rows))
p = os.path.join(HERE, "DESIGN.md")
s = open(p).read()
i = s.find("\n## 12. Seeded property-breaking")
if i >= 0:
    s = s[:i]
open(p, "w").write(s.rstrip("\n") + "\n" + text)
print("section 12 rewritten: %d rows" % len(rows))
