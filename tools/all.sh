#!/bin/sh
# usage: tools/all.sh [tier] [seed]  -- run every check, print one line per check
TIER=${1:-quick}; SEED=${2:-0}
cd /verif
for i in 01 02 03 04 05 06 07 08 09 10 11 12 13 14 15 16 17 18 19 20; do
  s=$(date +%s)
  out=$(VERIF_SEED=$SEED ./check C$i --tier $TIER 2>&1); rc=$?
  e=$(date +%s)
  echo "C$i rc=$rc $((e-s))s $(echo "$out" | grep -c '^VIOLATION') viol $(echo "$out" | grep -c '^KNOWN-FINDING') known $(echo "$out" | grep -E '^ENGINE' | head -1)"
done
