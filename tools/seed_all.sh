#!/bin/sh
# usage: tools/seed_all.sh PROP [prefix] [extra --checks list]  -- confirm and keep every mutantN in /tmp/wt-PROP/_out
P=$1; PRE=${2:-w3m}; CH=${3:-$P}
for n in 1 2 3 4; do
  [ -f /tmp/wt-$P/_out/mutant$n.diff ] || continue
  echo "== $P $n"
  /verif/tools/seed.py $P /tmp/wt-$P/_out $n --name $PRE$n --checks $CH 2>&1 | grep -E "KEPT|NOT KEPT|PATCH|tests_74|demo_clean|demo_patched_exit|kinds\"" -A1 | grep -v "^--" | cut -c1-240
done
