#!/venv/bin/python
"""Re-test kept seeded changes against the current checks.

usage: tools/reseed.py [--tier quick] [--checks C01,C07] <seeded-id> [<seeded-id> ...]   (or 'all' / 'missed')
Uses /verif/seeded/<id>/{patch.diff,demo.py}; updates meta.json (checks, detected_by)."""
import argparse, json, os, shutil, subprocess, sys, tempfile, time, glob
VERIF = os.path.dirname(os.path.dirname(os.path.abspath(__file__)))

def sh(cmd, cwd=None, env=None):
    r = subprocess.run(cmd, shell=True, cwd=cwd, env=env, capture_output=True, text=True)
    return r.returncode, r.stdout + r.stderr

def one(sid, checks, tier):
    d = os.path.join(VERIF, "seeded", sid)
    meta = json.load(open(os.path.join(d, "meta.json")))
    checks = checks or list((meta.get("checks") or {}).keys()) or [meta["property"]]
    S = tempfile.mkdtemp(prefix="gvseed-", dir="/dev/shm")
    try:
        sh("rsync -a --exclude .git --exclude '*.db' --exclude __pycache__ /repo/ %s/" % S)
        env = dict(os.environ, GFFUTILS_SRC=S, PYTHONPATH=S)
        shutil.copy(os.path.join(d, "demo.py"), os.path.join(S, "_demo.py"))
        rc0, _ = sh("/venv/bin/python _demo.py", cwd=S, env=env)
        rc, out = sh("patch -p1 -s < %s" % os.path.join(d, "patch.diff"), cwd=S)
        if rc != 0:
            print(sid, "PATCH FAILED"); return
        rc, out = sh("/venv/bin/python -m pytest -q -p no:cacheprovider --timeout=900 --continue-on-collection-errors 2>&1 | tail -1", cwd=S)
        tests_ok = "74 passed" in out and "2 failed" in out
        rc1, _ = sh("/venv/bin/python _demo.py", cwd=S, env=env)
        results = dict(meta.get("checks") or {})
        for cid in checks:
            t0 = time.time()
            rc, out = sh("./check %s --tier %s" % (cid, tier), cwd=VERIF, env=dict(os.environ, GV_REPO=S, GV_NO_EVIDENCE="1"))
            viol = [l for l in out.splitlines() if l.startswith("VIOLATION")]
            kinds = [l.strip() for l in out.splitlines() if l.strip().startswith("violation kinds:")]
            results[cid] = dict(exit=rc, violation_lines=len(viol), kinds=kinds[:1], wall_s=round(time.time() - t0, 1),
                                engine_error=[l for l in out.splitlines() if l.startswith("ENGINE-ERROR")][:2])
        meta["checks"] = results
        meta["detected_by"] = [c for c, r in results.items() if r["exit"] == 1 and r["violation_lines"]]
        meta["confirmed"] = rc0 == 0 and rc1 != 0 and tests_ok
        meta["retested_at"] = time.strftime("%Y-%m-%dT%H:%M:%SZ", time.gmtime())
        json.dump(meta, open(os.path.join(d, "meta.json"), "w"), indent=1)
        print("%-10s confirmed=%s detected_by=%s %s" % (sid, meta["confirmed"], meta["detected_by"],
              {c: (r["exit"], (r["kinds"] or r["engine_error"] or [""])[0][:150]) for c, r in results.items() if c in checks}))
    finally:
        shutil.rmtree(S, ignore_errors=True)

def main():
    ap = argparse.ArgumentParser()
    ap.add_argument("ids", nargs="+"); ap.add_argument("--checks"); ap.add_argument("--tier", default="quick")
    a = ap.parse_args()
    ids = a.ids
    if ids == ["all"] or ids == ["missed"]:
        allids = sorted(os.path.basename(os.path.dirname(p)) for p in glob.glob(os.path.join(VERIF, "seeded", "*", "meta.json")))
        if ids == ["missed"]:
            allids = [i for i in allids if not json.load(open(os.path.join(VERIF, "seeded", i, "meta.json"))).get("detected_by")]
        ids = allids
    for sid in ids:
        one(sid, a.checks.split(",") if a.checks else None, a.tier)

if __name__ == "__main__":
    main()
