#!/bin/sh
# run pinned suite in given repo dir (default /repo), print summary
D=${1:-/repo}
cd $D && /venv/bin/python -m pytest -ra -q -p no:cacheprovider --timeout=900 --continue-on-collection-errors -x --co -q >/dev/null 2>&1
cd $D && /venv/bin/python -m pytest -q -p no:cacheprovider --timeout=900 --continue-on-collection-errors 2>&1 | tail -6
