#!/venv/bin/python
"""usage: tools/add_fixed.py <entry-id> <property> <what failed>  -- records HEAD of /repo as the fixing commit"""
import json, subprocess, sys
eid, prop, what = sys.argv[1:4]
rev = sys.argv[4] if len(sys.argv) > 4 else "HEAD"
sha = subprocess.check_output(['git', '-C', '/repo', 'rev-parse', '--short', rev], text=True).strip()
p = '/verif/known_findings.json'
d = json.load(open(p))
d['entries'] = [e for e in d['entries'] if e['id'] != eid]
d['entries'].append({"id": eid, "property": prop, "status": "fixed", "commit": sha, "what": what,
                     "line": "fixed: property=%s %s %s" % (prop, sha, what)})
json.dump(d, open(p, 'w'), indent=1)
open(p, 'a').write("\n")
print("recorded", eid, sha)
